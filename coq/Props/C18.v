(** Property C18 — grouping partitions the readable image files and isolates faulty ones.
    Theorems only (proofs in Group/Proofs*.v), each with a non-vacuity Example.

    Reading a path (pydicom) and the meta data extractor are inputs of the model: a path list is a list
    of read results [rd F] (Fault e | Data attrs payload meta).  For that reason the property is
    proved for the code after the read: C18 is PARTIAL with respect to file reading. *)
From Coq Require Import List Bool ZArith NArith QArith Arith Permutation.
From DV Require Import Common.Res Common.Str Generated.T_group Group.Model Group.Spec
  Group.ProofsBase Group.ProofsGroup Group.ProofsClasses Group.ProofsSkip Group.ProofsIsolation Group.Examples
  Group.ProofsKeys Group.ProofsReal.
From DV Require Stack.Model.
Import ListNotations.

(** Every readable image file lies in exactly one group (the concatenation of the groups' member lists
    is a permutation of the image payloads of the path list), unreadable files and data sets without
    pixels lie in none; no group is empty; one warning per skipped entry. *)
Theorem C18_partition :
  forall (F : Type) (group_by close_tests : list str) (atol : Q) (warn : bool) (l : list (rd F)) gs w,
    0 <= atol ->
    parse_and_group group_by close_tests atol warn l = Ok (gs, w) ->
    Permutation (concat (map snd gs)) (map fst (imgs l)) /\
    (forall g, In g gs -> snd g <> []) /\
    w = n_skipped l.
Proof.
  intros F gb ct atol warn l gs w Ha H. split; [|split].
  - eapply partition; eassumption.
  - intros g Hg. eapply groups_nonempty; eassumption.
  - eapply warnings_count; eassumption.
Qed.

(** The key of every group is (Python ==) the tuple of group-by values of one of its members, and the
    keys of different groups differ. *)
Theorem C18_key_is_member_value :
  forall (F : Type) (group_by close_tests : list str) (atol : Q) (warn : bool) (l : list (rd F)) gs w,
    0 <= atol ->
    parse_and_group group_by close_tests atol warn l = Ok (gs, w) ->
    (forall g, In g gs ->
       exists f0 m0, In (f0, m0) (imgs l) /\ In f0 (snd g) /\ key_eqb (fst g) (map m0 group_by) = true) /\
    (forall g1 g2, In g1 gs -> In g2 gs -> key_eqb (fst g1) (fst g2) = true -> g1 = g2).
Proof.
  intros F gb ct atol warn l gs w Ha H. split.
  - intros g Hg. eapply key_is_member_value; eassumption.
  - eapply keys_distinct; eassumption.
Qed.

(** If closeness restricted to the values present is an equivalence (clusters separated by more than the
    tolerance), two files are in the same group iff they are equal on the exactly compared keys and close
    on the close keys. *)
Theorem C18_classes :
  forall (F : Type) (group_by close_tests : list str) (atol : Q) (warn : bool) (l : list (rd F)) gs w,
    0 <= atol ->
    parse_and_group group_by close_tests atol warn l = Ok (gs, w) ->
    NoDup (map fst (imgs l)) ->
    close_equiv group_by close_tests atol (map snd (imgs l)) ->
    forall f1 m1 f2 m2, In (f1, m1) (imgs l) -> In (f2, m2) (imgs l) ->
      ((exists g, In g gs /\ In f1 (snd g) /\ In f2 (snd g)) <-> same_group group_by close_tests atol m1 m2 = Ok true).
Proof. intros F gb ct atol warn l gs w Ha. apply classes; exact Ha. Qed.

(** ... and then the set of member sets and the number of warnings do not depend on the order of the
    path list (the group KEYS may: the representative of a close key is the first file seen). *)
Theorem C18_permutation :
  forall (F : Type) (group_by close_tests : list str) (atol : Q) (warn : bool) (l l' : list (rd F)) gs w gs' w',
    0 <= atol ->
    Permutation l l' ->
    parse_and_group group_by close_tests atol warn l = Ok (gs, w) ->
    parse_and_group group_by close_tests atol warn l' = Ok (gs', w') ->
    NoDup (map fst (imgs l)) ->
    close_equiv group_by close_tests atol (map snd (imgs l)) ->
    same_member_sets gs gs' /\ w = w'.
Proof. intros F gb ct atol warn l l' gs w gs' w' Ha. apply permutation_invariant; exact Ha. Qed.

(** An entry that is skipped in the given mode - an unreadable file or a file whose meta data cannot be
    extracted (read -> is_image test -> extractor, in that order) in warn mode, a data set without pixels in
    either mode - anywhere in the list: the result is that of the list without it, with one more warning. *)
Theorem C18_skip :
  forall (F : Type) (group_by close_tests : list str) (atol : Q) (warn : bool) (l1 l2 : list (rd F)) x,
    skipped_in warn x = true ->
    parse_and_group group_by close_tests atol warn (l1 ++ x :: l2)
    = bump_warn 1 (parse_and_group group_by close_tests atol warn (l1 ++ l2)).
Proof. intros. apply skip; assumption. Qed.

(** Strict mode: the exception of the first unreadable / not extractable image file propagates. *)
Theorem C18_skip_strict :
  forall (F : Type) (group_by close_tests : list str) (atol : Q) (l1 l2 : list (rd F)) x e st,
    strict_error x = Some e ->
    run group_by close_tests atol false ([], 0%nat) l1 = Ok st ->
    parse_and_group group_by close_tests atol false (l1 ++ x :: l2) = Err e.
Proof. intros. eapply skip_strict; eassumption. Qed.

(** stack_group, warn mode: if add_dcm is transactional, a file it refuses leaves the stack identical
    to the stack of the group without that file (one more warning). *)
Theorem C18_stack :
  forall (F state : Type) (add : state -> F -> state * option err) init g1 f g2 st1 w1 e,
    transactional add ->
    stack_group state add true init g1 = Ok (st1, w1) -> snd (add st1 f) = Some e ->
    stack_group state add true init (g1 ++ f :: g2) = bump_warn 1 (stack_group state add true init (g1 ++ g2)).
Proof. intros. eapply stack_skip; eassumption. Qed.

(** stack_group, strict mode: the refusal propagates. *)
Theorem C18_stack_strict :
  forall (F state : Type) (add : state -> F -> state * option err) init g1 f g2 st1 w1 e,
    stack_group state add false init g1 = Ok (st1, w1) -> snd (add st1 f) = Some e ->
    stack_group state add false init (g1 ++ f :: g2) = Err e.
Proof. intros. eapply stack_skip_strict; eassumption. Qed.

(** parse_and_stack, warn mode, end to end, for ANY set of refused files.  [p] selects the files to keep.  If
    every image file failing [p] is refused by (transactional) add_dcm when its turn comes, a fresh stack holds
    no file, payloads are distinct and closeness is an equivalence on the values present, then - both groupings
    succeeding - the path list without those files gives the same stacks under keys that correspond one to one:
    equal on the exactly compared entries, close ([keys_close], the code's own test) on the tolerance-compared
    ones; one warning less per dropped file.  A group that loses all its files is absent from both results.
    Exact equality of the keys is NOT claimed: see [C18_parse_and_stack_isolation_refuted]. *)
Theorem C18_parse_and_stack_isolation :
  forall (F state : Type) (add : state -> F -> state * option err) (n_files : state -> nat) (p : F -> bool)
         (group_by : list str) (atol : Q) init (l : list (rd F)) gs w gs2 w2,
    0 <= atol -> transactional add -> n_files init = 0%nat ->
    parse_and_group group_by default_close_keys atol true l = Ok (gs, w) ->
    parse_and_group group_by default_close_keys atol true (drop_files p l) = Ok (gs2, w2) ->
    NoDup (map fst (imgs l)) ->
    close_equiv group_by default_close_keys atol (map snd (imgs l)) ->
    (forall g, In g gs -> refused_along p add init (snd g)) ->
    exists sts sts' w',
      parse_and_stack state add n_files group_by atol true init l
        = Ok (sts, (length l - length (drop_files p l) + w')%nat) /\
      parse_and_stack state add n_files group_by atol true init (drop_files p l) = Ok (sts', w') /\
      same_stacks_up_to_keys group_by default_close_keys atol sts sts'.
Proof. intros. eapply parse_and_stack_isolation_keys; eassumption. Qed.

(** The keys are EQUAL (and no equivalence is needed) when no group loses its first file while keeping
    another one ([heads_closed]): then the key's representative of a tolerance-compared value is the same. *)
Theorem C18_parse_and_stack_isolation_exact :
  forall (F state : Type) (add : state -> F -> state * option err) (n_files : state -> nat) (p : F -> bool)
         (group_by : list str) (atol : Q) init (l : list (rd F)) gs w,
    0 <= atol -> transactional add -> n_files init = 0%nat ->
    parse_and_group group_by default_close_keys atol true l = Ok (gs, w) ->
    heads_closed p gs ->
    (forall g, In g gs -> refused_along p add init (snd g)) ->
    exists sts sts' w',
      parse_and_stack state add n_files group_by atol true init l
        = Ok (sts, (length l - length (drop_files p l) + w')%nat) /\
      parse_and_stack state add n_files group_by atol true init (drop_files p l) = Ok (sts', w') /\
      Permutation sts sts'.
Proof. intros. eapply parse_and_stack_isolation; eassumption. Qed.

(** ... and without [heads_closed] exact equality of the keys is false, of this model and of the code alike: the
    key of a group carries the tolerance-compared values of the first file SEEN, also when that file is then
    refused.  Witness: [add0] refuses file 0 of [ex_l]; with it the group {0,1} is keyed by file 0's
    orientation, without it by file 1's (3e-5 away): same stacks, different keys. *)
Theorem C18_parse_and_stack_isolation_refuted :
  exists (add : list nat -> nat -> list nat * option err) (p : nat -> bool) (l : list (rd nat)) gs w gs2 w2,
    transactional add /\
    parse_and_group default_group_keys default_close_keys group_atol true l = Ok (gs, w) /\
    parse_and_group default_group_keys default_close_keys group_atol true (drop_files p l) = Ok (gs2, w2) /\
    NoDup (map fst (imgs l)) /\
    close_equiv default_group_keys default_close_keys group_atol (map snd (imgs l)) /\
    (forall g, In g gs -> refused_along p add [] (snd g)) /\
    forall sts sts' n n',
      parse_and_stack (list nat) add (@length nat) default_group_keys group_atol true [] l = Ok (sts, n) ->
      parse_and_stack (list nat) add (@length nat) default_group_keys group_atol true [] (drop_files p l) = Ok (sts', n') ->
      ~ Permutation sts sts'.
Proof.
  exists add0, not0, ex_l. eexists. eexists. eexists. eexists.
  split; [exact add0_transactional|]. split; [vm_compute; reflexivity|]. split; [vm_compute; reflexivity|].
  split; [vm_compute; repeat constructor; cbn; intuition discriminate|].
  split; [apply close_equivb_sound; vm_compute; reflexivity|]. split.
  - intros g [<-|[<-|[<-|[]]]]; cbn; repeat split; eauto.
  - intros sts sts' n n' E1 E2 Hp.
    assert (K : forallb (fun a => existsb (fun b => key_eqb (fst a) (fst b)) sts') sts = true).
    { apply forallb_forall. intros a Ha. apply existsb_exists. exists a. split; [eapply Permutation_in; eassumption | apply key_eqb_refl]. }
    vm_compute in E1. vm_compute in E2. injection E1 as <- _. injection E2 as <- _. vm_compute in K. discriminate.
Qed.

(** The same two statements with [add] := the Stack model's add_dcm ([real_add st f] = the state after
    [Stack.Model.step st (OAdd f)] and the exception; equal to [add_of_res Stack.Model.add_dcm]).  The
    hypothesis "transactional" is discharged by C11's lemma (a refused add leaves the stack as it was). *)
Theorem C18_stack_real :
  forall init g1 (f : Stack.Model.file) g2 st1 w1 e,
    stack_group _ real_add true init g1 = Ok (st1, w1) -> Stack.Model.add_dcm st1 f = Err e ->
    stack_group _ real_add true init (g1 ++ f :: g2) = bump_warn 1 (stack_group _ real_add true init (g1 ++ g2)).
Proof. exact stack_real. Qed.

Theorem C18_parse_and_stack_isolation_real :
  forall (p : Stack.Model.file -> bool) (group_by : list str) (atol : Q) (time_order vector_order : bool)
         (l : list (rd Stack.Model.file)) gs w gs2 w2,
    let init := Stack.Model.init time_order vector_order in
    0 <= atol ->
    parse_and_group group_by default_close_keys atol true l = Ok (gs, w) ->
    parse_and_group group_by default_close_keys atol true (drop_files p l) = Ok (gs2, w2) ->
    NoDup (map fst (imgs l)) ->
    close_equiv group_by default_close_keys atol (map snd (imgs l)) ->
    (forall g, In g gs -> refused_along p real_add init (snd g)) ->
    exists sts sts' w',
      parse_and_stack _ real_add real_n_files group_by atol true init l
        = Ok (sts, (length l - length (drop_files p l) + w')%nat) /\
      parse_and_stack _ real_add real_n_files group_by atol true init (drop_files p l) = Ok (sts', w') /\
      same_stacks_up_to_keys group_by default_close_keys atol sts sts'.
Proof. exact parse_and_stack_isolation_keys_real. Qed.

Theorem C18_parse_and_stack_isolation_exact_real :
  forall (p : Stack.Model.file -> bool) (group_by : list str) (atol : Q) (time_order vector_order : bool)
         (l : list (rd Stack.Model.file)) gs w,
    let init := Stack.Model.init time_order vector_order in
    0 <= atol ->
    parse_and_group group_by default_close_keys atol true l = Ok (gs, w) ->
    heads_closed p gs ->
    (forall g, In g gs -> refused_along p real_add init (snd g)) ->
    exists sts sts' w',
      parse_and_stack _ real_add real_n_files group_by atol true init l
        = Ok (sts, (length l - length (drop_files p l) + w')%nat) /\
      parse_and_stack _ real_add real_n_files group_by atol true init (drop_files p l) = Ok (sts', w') /\
      Permutation sts sts'.
Proof. exact parse_and_stack_isolation_real. Qed.

(* ------------------------------------------------------------------ non-vacuity *)

(** three series (one with two files whose orientations differ by 3e-5), an unreadable file and a
    pixel-less data set: three groups, two warnings *)
Example C18_partition_ex :
  0 <= group_atol /\
  parse_and_group_default true ex_l
  = Ok ([ ([GStr [49%N]; GInt 1; GStr [97%N]; GTup ax], [0; 1]%nat);
          ([GStr [49%N]; GInt 1; GStr [97%N]; GTup ax_far], [4%nat]);
          ([GStr [49%N]; GInt 1; GStr [98%N]; GTup ax], [3%nat]) ], 2%nat).
Proof. split; [exact group_atol_nonneg | vm_compute; reflexivity]. Qed.

Example C18_key_is_member_value_ex :
  exists gs w, parse_and_group_default true (rev ex_l) = Ok (gs, w) /\
               map fst gs = [ [GStr [49%N]; GInt 1; GStr [97%N]; GTup ax_near];
                              [GStr [49%N]; GInt 1; GStr [97%N]; GTup ax_far];
                              [GStr [49%N]; GInt 1; GStr [98%N]; GTup ax] ].
Proof. eexists. eexists. split; vm_compute; reflexivity. Qed.

Example C18_classes_ex :
  NoDup (map fst (imgs ex_l)) /\
  close_equiv default_group_keys default_close_keys group_atol (map snd (imgs ex_l)) /\
  length (imgs ex_l) = 4%nat.
Proof.
  split; [|split].
  - vm_compute. repeat constructor; cbn; intuition discriminate.
  - apply close_equivb_sound. vm_compute. reflexivity.
  - reflexivity.
Qed.

(** the hypothesis is needed: on a closeness chain 0 ~ 4e-5 ~ 8e-5 the member sets depend on the order *)
Example C18_classes_needs_equivalence :
  close_equivb default_group_keys default_close_keys group_atol (map snd (imgs ex_chain)) = false /\
  rmap (fun r => map snd (fst r)) (parse_and_group_default true ex_chain) = Ok [[0; 1]; [2]]%nat /\
  rmap (fun r => map snd (fst r)) (parse_and_group_default true (rev ex_chain)) = Ok [[0]; [2; 1]]%nat.
Proof. repeat split; vm_compute; reflexivity. Qed.

Example C18_permutation_ex :
  Permutation ex_l (rev ex_l) /\
  rmap (fun r => (map snd (fst r), snd r)) (parse_and_group_default true ex_l) = Ok ([[0; 1]; [4]; [3]]%nat, 2%nat) /\
  rmap (fun r => (map snd (fst r), snd r)) (parse_and_group_default true (rev ex_l)) = Ok ([[1; 0]; [4]; [3]]%nat, 2%nat).
Proof. split; [apply Permutation_rev | split; vm_compute; reflexivity]. Qed.

Example C18_skip_ex :
  skipped_in true (nth 1 ex_l (Fault EValue)) = true /\ skipped_in false (nth 3 ex_l (Fault EValue)) = true /\
  skipped_in true ex_xfault = true /\ skipped_in false ex_xfault = false /\ skipped_in false ex_xnopix = true /\
  parse_and_group_default true (ex_l1 ++ Fault ECrash :: ex_l2) = bump_warn 1 (parse_and_group_default true (ex_l1 ++ ex_l2)) /\
  parse_and_group_default true (ex_l1 ++ ex_xfault :: ex_l2) = bump_warn 1 (parse_and_group_default true (ex_l1 ++ ex_l2)) /\
  parse_and_group_default false (ex_l1 ++ ex_xnopix :: ex_l2) = bump_warn 1 (parse_and_group_default false (ex_l1 ++ ex_l2)) /\
  is_ok (parse_and_group_default true (ex_l1 ++ ex_l2)) = true.
Proof. repeat split; vm_compute; reflexivity. Qed.

Example C18_skip_strict_ex :
  is_ok (run default_group_keys default_close_keys group_atol false ([], 0%nat) ex_l1) = true /\
  strict_error ex_xfault = Some EValue /\ strict_error ex_xnopix = None /\
  parse_and_group_default false (ex_l1 ++ Fault ECrash :: ex_l2) = Err ECrash /\
  parse_and_group_default false (ex_l1 ++ ex_xfault :: ex_l2) = Err EValue /\
  is_ok (parse_and_group_default false (ex_l1 ++ ex_l2)) = true.
Proof. repeat split; vm_compute; reflexivity. Qed.

Example C18_stack_ex :
  transactional toy_add /\
  stack_group (list nat) toy_add true [] [0; 2]%nat = Ok ([0; 2]%nat, 0%nat) /\
  snd (toy_add [0; 2]%nat 3%nat) = Some EIncongruent /\
  stack_group (list nat) toy_add true [] ([0; 2] ++ 3 :: [4])%nat = Ok ([0; 2; 4]%nat, 1%nat).
Proof. split; [exact toy_add_transactional | repeat split; vm_compute; reflexivity]. Qed.

(** the hypothesis is needed: an add that records something before refusing changes the result *)
Example C18_stack_needs_transactional :
  ~ transactional leaky_add /\
  stack_group (list nat) leaky_add true [] ([0; 2] ++ 3 :: [4])%nat
  <> bump_warn 1 (stack_group (list nat) leaky_add true [] ([0; 2] ++ [4])%nat).
Proof.
  split.
  - intros H. specialize (H [] 1%nat EIncongruent eq_refl). vm_compute in H. discriminate.
  - vm_compute. discriminate.
Qed.

Example C18_stack_strict_ex :
  stack_group (list nat) toy_add false [] ([0; 2] ++ 3 :: [4])%nat = Err EIncongruent.
Proof. vm_compute. reflexivity. Qed.

(** the toy add refuses the odd files: file 1 joins the group opened by file 0, file 3 is the only file of its
    group (the group disappears from the result).  Dropping both from the list gives the same stacks. *)
Example C18_parse_and_stack_isolation_exact_ex :
  exists gs w,
    parse_and_group default_group_keys default_close_keys group_atol true ex_l = Ok (gs, w) /\
    map snd gs = [[0; 1]; [4]; [3]]%nat /\
    heads_closed Nat.even gs /\
    (forall g, In g gs -> refused_along Nat.even toy_add [] (snd g)) /\
    (length ex_l - length (drop_files Nat.even ex_l) = 2)%nat /\
    parse_and_stack_default (list nat) toy_add (@length nat) true [] ex_l
    = Ok ([ ([GStr [49%N]; GInt 1; GStr [97%N]; GTup ax], [0%nat]);
            ([GStr [49%N]; GInt 1; GStr [97%N]; GTup ax_far], [4%nat]) ], 4%nat) /\
    parse_and_stack_default (list nat) toy_add (@length nat) true [] (drop_files Nat.even ex_l)
    = Ok ([ ([GStr [49%N]; GInt 1; GStr [97%N]; GTup ax], [0%nat]);
            ([GStr [49%N]; GInt 1; GStr [97%N]; GTup ax_far], [4%nat]) ], 2%nat).
Proof.
  eexists. eexists. split; [vm_compute; reflexivity|]. split; [reflexivity|]. split; [|split; [|split; [|split]]].
  - intros g f [<-|[<-|[<-|[]]]]; cbn [snd hd_error]; intros E; injection E as <-; intros E; try discriminate E; reflexivity.
  - intros g [<-|[<-|[<-|[]]]]; cbn; repeat split; eauto.
  - vm_compute. reflexivity.
  - vm_compute. reflexivity.
  - vm_compute. reflexivity.
Qed.

(** Stack files: sA, a collider sC (same position and time point, other TR and phase direction), sB,
    an incongruent sD (other Rows); explicit time order.  The refused files leave no trace. *)
Example C18_stack_real_ex :
  (forall st f, real_add st f = add_of_res Stack.Model.add_dcm st f) /\
  (exists st1 w1, stack_group _ real_add true sinit [sA] = Ok (st1, w1) /\ Stack.Model.add_dcm st1 sC = Err ECollision) /\
  stack_group _ real_add true sinit ([sA] ++ sC :: [sB; sD]) = bump_warn 1 (stack_group _ real_add true sinit ([sA] ++ [sB; sD])) /\
  rmap (fun x => (map (fun e => Stack.Model.f_id (fst e)) (Stack.Model.files_info (fst x)), snd x))
       (stack_group _ real_add true sinit [sA; sC; sB; sD]) = Ok ([0; 1]%nat, 2%nat).
Proof.
  split; [|split; [|split]].
  - exact real_add_is_add_dcm.
  - eexists. eexists. split; vm_compute; reflexivity.
  - vm_compute. reflexivity.
  - vm_compute. reflexivity.
Qed.

Example C18_parse_and_stack_isolation_exact_real_ex :
  exists gs w,
    parse_and_group default_group_keys default_close_keys group_atol true real_l = Ok (gs, w) /\
    map (fun g => map Stack.Model.f_id (snd g)) gs = [[0; 8; 1; 9]; [7]]%nat /\
    heads_closed keep_real gs /\
    (forall g, In g gs -> refused_along keep_real real_add sinit (snd g)) /\
    (length real_l - length (drop_files keep_real real_l) = 3)%nat /\
    ids_of (parse_and_stack_default _ real_add real_n_files true sinit real_l) = Ok ([[0; 1]]%nat, 4%nat) /\
    ids_of (parse_and_stack_default _ real_add real_n_files true sinit (drop_files keep_real real_l)) = Ok ([[0; 1]]%nat, 1%nat).
Proof.
  eexists. eexists. split; [vm_compute; reflexivity|]. split; [reflexivity|]. split; [|split; [|split; [|split]]].
  - intros g f [<-|[<-|[]]]; cbn [snd hd_error]; intros E; injection E as <-; intros E; try discriminate E; reflexivity.
  - intros g [<-|[<-|[]]]; vm_compute; repeat split; eauto.
  - vm_compute. reflexivity.
  - vm_compute. reflexivity.
  - vm_compute. reflexivity.
Qed.

(** the main statement on the witness of the refutation: file 0 (first of its group) is refused, file 1 stays.
    The stacks are the same, the key of the group {1} differs within the tolerance. *)
Example C18_parse_and_stack_isolation_ex :
  exists gs w gs2 w2,
    parse_and_group default_group_keys default_close_keys group_atol true ex_l = Ok (gs, w) /\
    parse_and_group default_group_keys default_close_keys group_atol true (drop_files not0 ex_l) = Ok (gs2, w2) /\
    NoDup (map fst (imgs ex_l)) /\
    close_equiv default_group_keys default_close_keys group_atol (map snd (imgs ex_l)) /\
    (forall g, In g gs -> refused_along not0 add0 [] (snd g)) /\
    ~ heads_closed not0 gs /\
    rmap (fun r => (map snd (fst r), snd r)) (parse_and_stack_default (list nat) add0 (@length nat) true [] ex_l)
      = Ok ([[1]; [4]; [3]]%nat, 3%nat) /\
    rmap (fun r => (map snd (fst r), snd r)) (parse_and_stack_default (list nat) add0 (@length nat) true [] (drop_files not0 ex_l))
      = Ok ([[1]; [4]; [3]]%nat, 2%nat) /\
    keys_close default_group_keys default_close_keys group_atol
      [GStr [49%N]; GInt 1; GStr [97%N]; GTup ax] [GStr [49%N]; GInt 1; GStr [97%N]; GTup ax_near].
Proof.
  eexists. eexists. eexists. eexists. split; [vm_compute; reflexivity|]. split; [vm_compute; reflexivity|].
  split; [vm_compute; repeat constructor; cbn; intuition discriminate|].
  split; [apply close_equivb_sound; vm_compute; reflexivity|]. split; [|split; [|split; [|split]]].
  - intros g [<-|[<-|[<-|[]]]]; cbn; repeat split; eauto.
  - intros Hc. specialize (Hc _ 0%nat (or_introl eq_refl) eq_refl eq_refl). vm_compute in Hc. discriminate.
  - vm_compute. reflexivity.
  - vm_compute. reflexivity.
  - vm_compute. repeat split; reflexivity.
Qed.

Example C18_parse_and_stack_isolation_real_ex :
  exists gs w gs2 w2,
    parse_and_group default_group_keys default_close_keys group_atol true real_l = Ok (gs, w) /\
    parse_and_group default_group_keys default_close_keys group_atol true (drop_files keep_real real_l) = Ok (gs2, w2) /\
    NoDup (map (fun x => Stack.Model.f_id (fst x)) (imgs real_l)) /\
    close_equiv default_group_keys default_close_keys group_atol (map snd (imgs real_l)) /\
    (forall g, In g gs -> refused_along keep_real real_add sinit (snd g)).
Proof.
  eexists. eexists. eexists. eexists. split; [vm_compute; reflexivity|]. split; [vm_compute; reflexivity|].
  split; [vm_compute; repeat constructor; cbn; intuition discriminate|].
  split; [apply close_equivb_sound; vm_compute; reflexivity|].
  intros g [<-|[<-|[]]]; vm_compute; repeat split; eauto.
Qed.
