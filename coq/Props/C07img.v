(** C07 Everything produced matches its image -- IMAGE / EXTENSION AGREEMENT half.
    After [NiftiWrapper.from_sequence]: the result extension passed [check_valid] (the final [NiftiWrapper(...)]),
    records the result image's affine, its shape (when the first input's extension recorded the first image's
    shape), and the merged header slice dim WHEN THERE IS ONE; when the header slice dim was erased (inputs
    disagree, or none had one) the extension silently keeps the first extension's slice_dim: the unconditional
    statement is false ([C07img_merge_sdim_refuted], open finding N8).
    After [NiftiWrapper.split]: every piece's extension records the piece's shape, slice dim and the parent
    extension's affine (so the 3x3 parts agree whenever the parent's did).
    Model: Wrapper/Model.v. *)
From Coq Require Import List Bool Arith ZArith QArith Lia.
From DV Require Import Common.Res Common.Jv Ext.Types Ext.Model Orient.Model Wrapper.Model Wrapper.Spec Wrapper.Corr
     Wrapper.ProofsSplit Wrapper.ProofsW.
Import ListNotations.
Local Open Scope nat_scope.

Theorem C07img_merge :
  forall (V : Type) (veqb : V -> V -> bool) (vnone : V) (unitv : vec -> vec) (ws : list (wrapper V))
         (odim : option nat) (r : img) (e : ext V) (im0 : img) (e0 : ext V) (rest : list (wrapper V)),
    ws = (im0, e0) :: rest ->
    from_sequence_w veqb vnone unitv ws odim = Ok (r, e) ->
    aff (hdr_of e) = iaff r /\
    sdim (hdr_of e) = match islice r with Some d => Some d | None => sdim (hdr_of e0) end /\
    (shape (hdr_of e0) = ishape im0 -> shape (hdr_of e) = ishape r) /\
    check_valid_e e = true.
Proof. exact @from_sequence_w_agree. Qed.

Theorem C07img_merge_sdim_partial :
  forall (V : Type) (veqb : V -> V -> bool) (vnone : V) (unitv : vec -> vec) (ws : list (wrapper V))
         (odim : option nat) (r : img) (e : ext V) (im0 : img) (e0 : ext V) (rest : list (wrapper V)),
    ws = (im0, e0) :: rest ->
    from_sequence_w veqb vnone unitv ws odim = Ok (r, e) ->
    (islice r <> None \/ sdim (hdr_of e0) = None) -> sdim (hdr_of e) = islice r.
Proof. exact @from_sequence_w_sdim. Qed.
(* full statement (FALSE, see below):  ... from_sequence_w ... ws odim = Ok (r, e) ->
     (forall w, In w ws -> shape (hdr_of (snd w)) = ishape (fst w) /\ sdim (hdr_of (snd w)) = islice (fst w)) ->
     sdim (hdr_of e) = islice r *)

Definition exD : mat := [[3 # 2; -4 # 1; 0; 10]; [2 # 1; 3 # 1; 0; -8 # 1]; [0; 0; 5 # 2; 3]; [0; 0; 0; 1]]%Q.
Definition exw (d : list Z) (sl : option nat) : wrapper jv :=
  (mk_img [2; 1; 2] d exD sl, mk_ext (mk_hdr [2; 1; 2] sl exD false false) []).

(** two inputs, each consistent with its own extension (slice dims 2 and none): the merge succeeds, the result
    header has no slice dim, the result extension says 2 *)
Theorem C07img_merge_sdim_refuted :
  exists (ws : list (wrapper jv)) r e,
    (forall w, In w ws -> shape (hdr_of (snd w)) = ishape (fst w) /\ sdim (hdr_of (snd w)) = islice (fst w)) /\
    from_sequence_w jv_eqb JNull unit_exact ws (Some 3) = Ok (r, e) /\
    islice r = None /\ sdim (hdr_of e) = Some 2.
Proof.
  exists [exw [1; 2; 3; 4]%Z (Some 2); exw [5; 6; 7; 8]%Z None]. eexists. eexists.
  split; [intros w [<-|[<-|[]]]; split; reflexivity|]. split; [vm_compute; reflexivity|]. split; reflexivity.
Qed.

Theorem C07img_split :
  forall (V : Type) (veqb : V -> V -> bool) (vnone : V) (im : img) (e : ext V) (odim : option nat)
         (ws : list (wrapper V)) (dw : wrapper V),
    split_w veqb vnone (im, e) odim = Ok ws -> wf_img im ->
    shape (hdr_of e) = ishape im -> sdim (hdr_of e) = islice im ->
    forall i, i < length ws ->
      let p := nth i ws dw in
      shape (hdr_of (snd p)) = ishape (fst p) /\
      sdim (hdr_of (snd p)) = islice (fst p) /\
      aff (hdr_of (snd p)) = aff (hdr_of e).
Proof. exact @split_w_agree. Qed.

(* ------------------------------------------------------------------------------------------ non-vacuity *)

Example C07img_merge_nonvacuous :
  exists r e, from_sequence_w jv_eqb JNull unit_exact [exw [1; 2; 3; 4]%Z (Some 2); exw [5; 6; 7; 8]%Z (Some 2)] (Some 3) = Ok (r, e) /\
              ishape r = [2; 1; 2; 2] /\ shape (hdr_of e) = [2; 1; 2; 2] /\ sdim (hdr_of e) = Some 2 /\ islice r = Some 2 /\
              idata r = [1; 5; 2; 6; 3; 7; 4; 8]%Z.
Proof. eexists. eexists. split; [vm_compute; reflexivity|]. repeat split. Qed.

Example C07img_merge_sdim_partial_nonvacuous :
  exists r e, from_sequence_w jv_eqb JNull unit_exact [exw [1; 2; 3; 4]%Z (Some 2); exw [5; 6; 7; 8]%Z (Some 2)] (Some 3) = Ok (r, e) /\
              islice r <> None /\ sdim (hdr_of e) = islice r.
Proof. eexists. eexists. split; [vm_compute; reflexivity|]. split; [discriminate | reflexivity]. Qed.

Example C07img_split_nonvacuous :
  let w := exw [1; 2; 3; 4]%Z (Some 2) in
  wf_img (fst w) /\ shape (hdr_of (snd w)) = ishape (fst w) /\ sdim (hdr_of (snd w)) = islice (fst w) /\
  exists ws, split_w jv_eqb JNull w None = Ok ws /\ length ws = 2 /\
             map (fun w => (ishape (fst w), shape (hdr_of (snd w)), sdim (hdr_of (snd w)), islice (fst w))) ws =
             [([2; 1; 1], [2; 1; 1], Some 2, Some 2); ([2; 1; 1], [2; 1; 1], Some 2, Some 2)].
Proof. cbv zeta. split; [split; reflexivity|]. split; [reflexivity|]. split; [reflexivity|]. eexists. split; [vm_compute; reflexivity|]. split; reflexivity. Qed.
