(** Source equality, extension algebra — theorems only (stage D: from_sequence).
    DcmMetaExtension.from_sequence(seq, dim, None, slice_dim), TRANSLATED on every run in state-passing style over a list of
    instances (Generated/T_src_state.v [from_sequence_st]; what make_empty gives for the result - content and slice-normal
    token - are parameters [mk], [mkn] of the translation, run against the real make_empty in the correspondence; the
    bookkeeping of affine / reorient_transform is numeric data outside the translation), against the hand model: when
    Model.merge_hdr gives the header [hfull] and Model.merge_k succeeds on every key ([R] = its results), the translated method
    - the checks of dim and of the first shape, the output shape, the initialisation from the first input, one _insert per
    further input while the shape grows along dim, the final _simplify pass over ('global','slices') - returns a content
    that holds exactly [R] (success-case form, as SRC_insert). *)
From Coq Require Import List Bool Arith NArith ZArith QArith.
From DV Require Import Common.Res Common.Str Common.Jv Common.PyOps2 Common.PyOps2Dyn Generated.T_classes Generated.T_src_state
     Ext.Types Ext.Classes Ext.Seq Ext.Model Ext.SrcEqAlg Ext.SrcEqState Ext.SrcEqInsert Ext.SrcEqInsertAll Ext.SrcEqFromSeq
     Link.Abs Link.ProofsTo Ext.SrcEqFromSeqLink Ext.Spec Ext.ValidFacts Ext.SrcEqValidLink.
Import ListNotations.
Local Open Scope nat_scope.

(** an input is (header, content, per-key states, slice-normal token); [good_input]: the content holds the states (none of an
    invalid class, all storable), 3..5-D header with its base dictionaries, token comparing as Model.use_slices does;
    [traj_ok] / [final_ok]: the states a key goes through are storable (the side conditions of SRC_insert / SRC_simplify at
    every step) *)
Theorem SRC_from_sequence : forall (mk : list nat -> option nat -> res jv) (mkn : option nat -> res (option nat))
    (i0 : input) (rest : list input) (dim : nat) (sd : option nat) (hfull : hdr) (oe : list (str * jv)) (rn : option nat)
    (R : key -> kst jv),
  merge_hdr (map in_hdr (i0 :: rest)) dim None sd = Ok hfull ->
  (forall i, In i (i0 :: rest) -> good_input hfull rn i) ->
  mk (shape hfull) (sdim hfull) = Ok (JObj oe) -> Holds oe hfull (fun _ => None) -> mkn (sdim hfull) = Ok rn ->
  (odim_is (sdim hfull) dim = true -> prod_list (skipn 3 (shape hfull)) <> 0) ->
  (forall k, traj_ok hfull dim 1 (map (fun i => (in_hdr i, in_fn i k)) rest) (init_k hfull (in_hdr i0) (in_fn i0 k))) ->
  (forall k ks, insert_all_k jv_eqb JNull hfull dim 1 (map (fun i => (in_hdr i, in_fn i k)) rest) (init_k hfull (in_hdr i0) (in_fn i0 k)) = Ok ks ->
                final_ok hfull ks) ->
  (forall k, merge_k jv_eqb JNull hfull dim (map (fun i => (in_hdr i, in_fn i k)) (i0 :: rest)) = Ok (R k)) ->
  exists o', from_sequence_st mk mkn classifications None preserving_changes (okeys const_tests) (okeys repeat_tests) JNull
                              (map to_inst (i0 :: rest)) dim None sd = Ok (JObj o') /\ Holds o' hfull R.
Proof. exact from_sequence_st_ref. Qed.

(** the same at the extension level: the hand model's [from_sequence] on extensions [es] (each with the token of its slice
    normal) against the translated class method run on their contents ([ext_input] = header, Link/Abs.v content, lookup, token) *)
Theorem SRC_from_sequence_ext : forall (qtok : Q -> str) (mk : list nat -> option nat -> res jv) (mkn : option nat -> res (option nat))
    (en0 : ext jv * option nat) (ens : list (ext jv * option nat)) (dim : nat) (sd : option nat) (r : ext jv)
    (oe : list (str * jv)) (rn : option nat),
  let es := map fst (en0 :: ens) in
  let hfull := hdr_of r in
  from_sequence jv_eqb JNull es dim None sd = Ok r ->
  (forall en, In en (en0 :: ens) -> NoDup (keys_e (fst en)) /\ ndim_ok (hdr_of (fst en)) = true /\ bases_ok (hdr_of (fst en)) /\
      (forall k, visible (hdr_of (fst en)) (lookup_e (fst en) k) = lookup_e (fst en) k) /\
      (forall k, kst_storable (hdr_of (fst en)) (lookup_e (fst en) k)) /\
      tok_eq rn (snd en) = use_slices hfull (hdr_of (fst en))) ->
  mk (shape hfull) (sdim hfull) = Ok (JObj oe) -> Holds oe hfull (fun _ => None) -> mkn (sdim hfull) = Ok rn ->
  (odim_is (sdim hfull) dim = true -> prod_list (skipn 3 (shape hfull)) <> 0) ->
  (forall k, traj_ok hfull dim 1 (map (fun en => (hdr_of (fst en), lookup_e (fst en) k)) ens)
                     (init_k hfull (hdr_of (fst en0)) (lookup_e (fst en0) k))) ->
  (forall k ks, insert_all_k jv_eqb JNull hfull dim 1 (map (fun en => (hdr_of (fst en), lookup_e (fst en) k)) ens)
                             (init_k hfull (hdr_of (fst en0)) (lookup_e (fst en0) k)) = Ok ks -> final_ok hfull ks) ->
  merge_hdr (map (@hdr_of jv) es) dim None sd = Ok hfull /\
  exists o', from_sequence_st mk mkn classifications None preserving_changes (okeys const_tests) (okeys repeat_tests) JNull
                              (map to_inst (map (ext_input qtok) (en0 :: ens))) dim None sd = Ok (JObj o') /\
             Holds o' hfull (lookup_e r).
Proof. exact from_sequence_ext_ref. Qed.

(** the per-extension hypotheses of SRC_get_subset / SRC_from_sequence_ext (all but the slice-normal token) follow from the format
    rules: a valid, non-degenerate extension has distinct keys, a 3..5-D header with its base dictionaries, no entry of an invalid
    class and only storable per-key states *)
Theorem SRC_valid_inputs : forall e : ext jv, valid e -> nondegenerate e ->
  NoDup (keys_e e) /\ ndim_ok (hdr_of e) = true /\ bases_ok (hdr_of e) /\
  (forall k, visible (hdr_of e) (lookup_e e k) = lookup_e e k) /\
  (forall k, kst_storable (hdr_of e) (lookup_e e k)).
Proof. exact valid_ext_ok. Qed.

(** the header logic alone: what a successful merge_hdr says about the inputs and the header of the result *)
Theorem SRC_merge_hdr : forall (hs : list hdr) (h0 : hdr) (r : list hdr) (dim : nat) (sd : option nat) (hfull : hdr),
  hs = h0 :: r -> merge_hdr hs dim None sd = Ok hfull ->
  dim < 5 /\ ((dim <? length (shape h0)) && negb (nth dim (shape h0) 0 =? 1)) = false /\
  (exists osh, set_nth dim (length hs) (pad_to (S dim) (shape h0)) = Some osh /\ shape hfull = osh) /\
  sdim hfull = (match sd with Some d => Some d | None => sdim h0 end) /\
  ndim_ok hfull = true /\ match sdim hfull with Some d => d < 3 | None => True end /\
  ndim_ok h0 = true /\
  (forall c, class_valid h0 c = true -> (is_slices c && negb (use_slices hfull h0)) || has_base hfull (base_of c) = true) /\
  bases_ok hfull.
Proof. exact merge_hdr_inv. Qed.

(** non-vacuity: two 3-D instances merged along a new time dimension: the constant that differs becomes per time point, the
    per-slice key that repeats is simplified back to ('time','slices') by the final pass *)
Definition exq_a : list (list Q) := [[1;0;0;0];[0;1;0;0];[0;0;1;0];[0;0;0;1]]%Q.
Definition exq_h : hdr := mk_hdr [2; 2; 2] (Some 2) exq_a false false.
Definition exq_c (g : Z) (s : list Z) : list (str * jv) :=
  [(name_of_base BGlobal, JObj [(name_of_sub SConst, JObj [([103]%N, JInt g)]); (name_of_sub SSlices, JObj [([115]%N, JArr (map JInt s))])])].
Definition exq_f (g : Z) (s : list Z) : key -> kst jv :=
  fun k => if str_eqb k [103]%N then Some (GConst, [JInt g]) else if str_eqb k [115]%N then Some (GSlices, map JInt s) else None.
Definition exq_empty : list (str * jv) :=
  [(name_of_base BGlobal, JObj [(name_of_sub SConst, JObj []); (name_of_sub SSlices, JObj [])]);
   (name_of_base BTime, JObj [(name_of_sub SSamples, JObj []); (name_of_sub SSlices, JObj [])])].
Definition exq_ins : list input :=
  [(exq_h, exq_c 5 [1; 2]%Z, exq_f 5 [1; 2]%Z, Some 2); (exq_h, exq_c 6 [1; 2]%Z, exq_f 6 [1; 2]%Z, Some 2)].
Definition exq_hfull : hdr := mk_hdr [2; 2; 2; 2] (Some 2) exq_a true false.

Example SRC_from_sequence_example :
  merge_hdr (map in_hdr exq_ins) 3 None None = Ok exq_hfull /\
  from_sequence_st (fun _ _ => Ok (JObj exq_empty)) (fun _ => Ok (Some 2)) classifications None preserving_changes (okeys const_tests)
                   (okeys repeat_tests) JNull (map to_inst exq_ins) 3 None None
  = Ok (JObj [(name_of_base BGlobal, JObj [(name_of_sub SConst, JObj []); (name_of_sub SSlices, JObj [])]);
              (name_of_base BTime, JObj [(name_of_sub SSamples, JObj [([103]%N, JArr (map JInt [5; 6]%Z))]);
                                         (name_of_sub SSlices, JObj [([115]%N, JArr (map JInt [1; 2]%Z))])])]) /\
  merge_k jv_eqb JNull exq_hfull 3 (map (fun i => (in_hdr i, in_fn i [103]%N)) exq_ins) = Ok (Some (TSamples, map JInt [5; 6]%Z)) /\
  merge_k jv_eqb JNull exq_hfull 3 (map (fun i => (in_hdr i, in_fn i [115]%N)) exq_ins) = Ok (Some (TSlices, map JInt [1; 2]%Z)) /\
  use_slices exq_hfull exq_h = true.
Proof.
  split; [vm_compute; reflexivity|]. split; [vm_compute; reflexivity|]. split; [vm_compute; reflexivity|].
  split; vm_compute; reflexivity.
Qed.

Definition exq_e (g : Z) : ext jv := mk_ext exq_h [([103]%N, (GConst, [JInt g])); ([115]%N, (GSlices, map JInt [1; 2]%Z))].
Definition exq_r : ext jv := mk_ext exq_hfull [([103]%N, (TSamples, map JInt [5; 6]%Z)); ([115]%N, (TSlices, map JInt [1; 2]%Z))].

Lemma exq_lookup (g : Z) (k : key) :
  lookup_e (exq_e g) k = if str_eqb k [103]%N then Some (GConst, [JInt g]) else if str_eqb k [115]%N then Some (GSlices, map JInt [1; 2]%Z) else None.
Proof. reflexivity. Qed.

(** strong non-vacuity: EVERY hypothesis of SRC_from_sequence_ext holds for two valid 3-D extensions merged along a new time
    dimension (validity by the boolean checker of C07, the side conditions by computation, key by key) *)
Example SRC_from_sequence_hypotheses :
  exists o', from_sequence_st (fun _ _ => Ok (JObj exq_empty)) (fun _ => Ok (Some 2)) classifications None preserving_changes (okeys const_tests)
                              (okeys repeat_tests) JNull (map to_inst (map (ext_input (fun _ => [])) [(exq_e 5, Some 2); (exq_e 6, Some 2)])) 3 None None
             = Ok (JObj o') /\ Holds o' exq_hfull (lookup_e exq_r).
Proof.
  apply (SRC_from_sequence_ext (fun _ => []) (fun _ _ => Ok (JObj exq_empty)) (fun _ => Ok (Some 2)) (exq_e 5, Some 2) [(exq_e 6, Some 2)] 3 None
           exq_r exq_empty (Some 2)).
  - vm_compute. reflexivity.
  - intros en [<-|[<-|[]]]; cbn [fst snd];
      (assert (Hv : valid (exq_e 5) /\ valid (exq_e 6)) by (split; apply validb_valid; vm_compute; reflexivity));
      destruct Hv as [Hv5 Hv6].
    + destruct (valid_ext_ok (exq_e 5) Hv5 (nondegenerateb_nondegenerate _ Hv5 ltac:(vm_compute; reflexivity))) as (A & B & C & D & E).
      repeat split; try assumption. 
    + destruct (valid_ext_ok (exq_e 6) Hv6 (nondegenerateb_nondegenerate _ Hv6 ltac:(vm_compute; reflexivity))) as (A & B & C & D & E).
      repeat split; try assumption.
  - reflexivity.
  - constructor.
    + intros b Hb. destruct b; try discriminate Hb. reflexivity.
    + intros c Hc. exists []. destruct c; try discriminate Hc; (split; [reflexivity|]; split; [constructor | intros k; reflexivity]).
  - reflexivity.
  - intros H. discriminate H.
  - intros k. cbn [map fst snd traj_ok]. rewrite !exq_lookup. split; [|intros; exact I].
    destruct (str_eqb k [103]%N); [|destruct (str_eqb k [115]%N)];
      (split; [vm_compute; try reflexivity; try discriminate; exact I|]; split; [reflexivity|]);
      intros s1 H1; vm_compute in H1; injection H1 as <-; vm_compute; try reflexivity; try discriminate; exact I.
  - intros k ks. cbn [map fst snd]. rewrite !exq_lookup.
    destruct (str_eqb k [103]%N); [|destruct (str_eqb k [115]%N)]; intros H; vm_compute in H; injection H as <-;
      (split; [vm_compute; try reflexivity; try discriminate; exact I|]; split; [reflexivity|]);
      intros c vs Hx Hsl; try discriminate Hx; vm_compute; discriminate.
Qed.
