(** Source equality, extension algebra — theorems only (stage C, third part: get_subset).
    DcmMetaExtension.get_subset(dim, idx), TRANSLATED on every run in state-passing style (Generated/T_src_state.v
    [get_subset_st]: the result object comes from make_empty — a parameter [mk] of the translation, run against the real
    make_empty in the correspondence — and is filled CLASS by class by the translated _copy_slice / _copy_sample / plain
    copies), against the hand model's KEY-by-key [get_subset]: when the model succeeds with [r], the translated method run
    on the content of the extension returns a content that holds exactly the entries of [r], for the header [subset_hdr]
    computes (success-case form).  [SRC_get_subset_content] is the same on any content that holds the per-key states. *)
From Coq Require Import List Bool Arith NArith ZArith QArith.
From DV Require Import Common.Res Common.Str Common.Jv Common.PyOps2 Common.PyOps2Dyn Generated.T_classes Generated.T_src_state
     Ext.Types Ext.Classes Ext.Seq Ext.Model Ext.SrcEqAlg Ext.SrcEqState Ext.SrcEqSubset Ext.SrcEqSample Ext.SrcEqGetSubset
     Link.Abs Link.ProofsTo Ext.SrcEqStateLink Ext.SrcEqGetSubsetLink.
Import ListNotations.
Local Open Scope nat_scope.

(** hypotheses: the source content holds [fs] and the empty result holds nothing (what make_empty builds); both headers have
    the base dictionaries of their valid classes; the model succeeds on every key ([R] = its per-key results) and the
    once-per-class statements succeed; [deg_ok]: the same-base samples case writes no multiplicity-1 varying class
    (DESIGN 3.2); [side]: what _copy_slice / _copy_sample hand to _simplify is a valid non-degenerate class with the right
    number of values for a constant (the hypotheses of SRC_copy_slice / SRC_copy_sample, per key) *)
Theorem SRC_get_subset_content : forall (mk : list nat -> option nat -> res jv) (h hr : hdr) (dim idx : nat)
    (os o0 : list (str * jv)) (fs R : key -> kst jv),
  subset_hdr h dim = Ok hr ->
  Holds os h fs -> bases_ok h -> bases_ok hr ->
  mk (shape hr) (sdim hr) = Ok (JObj o0) -> Holds o0 hr (fun _ => None) ->
  (forall k, subset_k jv_eqb JNull h hr dim idx (fs k) = Ok (R k)) ->
  (forall c, class_valid h c = true -> subset_prelude h hr dim c = Ok tt) ->
  (forall c, class_valid h c = true -> deg_ok h hr dim c) ->
  (forall k c vs, fs k = Some (c, vs) -> class_valid h c = true -> side h hr dim idx c vs) ->
  exists o', get_subset_st mk classifications (shape h) (sdim h) (n_slices h) tt tt preserving_changes (okeys const_tests)
                           (okeys repeat_tests) (JObj os) dim idx = Ok (JObj o') /\ Holds o' hr R.
Proof. exact get_subset_st_ref. Qed.

Theorem SRC_get_subset : forall (qtok : Q -> str) (mk : list nat -> option nat -> res jv) (e r : ext jv) (dim idx : nat)
    (o0 : list (str * jv)),
  NoDup (keys_e e) -> bases_ok (hdr_of e) ->
  get_subset jv_eqb JNull e dim idx = Ok r ->
  mk (shape (hdr_of r)) (sdim (hdr_of r)) = Ok (JObj o0) -> Holds o0 (hdr_of r) (fun _ => None) ->
  (forall c, class_valid (hdr_of e) c = true -> deg_ok (hdr_of e) (hdr_of r) dim c) ->
  (forall k c vs, lookup_e e k = Some (c, vs) -> class_valid (hdr_of e) c = true -> side (hdr_of e) (hdr_of r) dim idx c vs) ->
  subset_hdr (hdr_of e) dim = Ok (hdr_of r) /\
  exists o', get_subset_st mk classifications (shape (hdr_of e)) (sdim (hdr_of e)) (n_slices (hdr_of e)) tt tt preserving_changes
                           (okeys const_tests) (okeys repeat_tests) (to_content qtok e) dim idx = Ok (JObj o') /\
             Holds o' (hdr_of r) (lookup_e r).
Proof. exact get_subset_ext_ref. Qed.

(** non-vacuity: time point 1 of a 5-D extension (3 times x 2 vectors) with a per-time-sample key "k" and a constant "c" *)
Definition exg_a : list (list Q) := [[1;0;0;0];[0;1;0;0];[0;0;1;0];[0;0;0;1]]%Q.
Definition exg_h : hdr := mk_hdr [2; 2; 2; 3; 2] (Some 2) exg_a true true.
Definition exg_e : ext jv := mk_ext exg_h [([107]%N, (TSamples, map JInt [0; 1; 2; 10; 11; 12]%Z)); ([99]%N, (GConst, [JInt 7]))].
Definition exg_hr : hdr := mk_hdr [2; 2; 2; 1; 2] (Some 2) exg_a false true.
Definition exg_r : ext jv := mk_ext exg_hr [([107]%N, (VSamples, map JInt [1; 11]%Z)); ([99]%N, (GConst, [JInt 7]))].
Definition exg_empty : list (str * jv) :=
  [(name_of_base BGlobal, JObj [(name_of_sub SConst, JObj []); (name_of_sub SSlices, JObj [])]);
   (name_of_base BVector, JObj [(name_of_sub SSamples, JObj []); (name_of_sub SSlices, JObj [])])].

Example SRC_get_subset_example :
  get_subset jv_eqb JNull exg_e 3 1 = Ok exg_r /\
  get_subset_st (fun _ _ => Ok (JObj exg_empty)) classifications (shape exg_h) (sdim exg_h) (n_slices exg_h) tt tt preserving_changes
                (okeys const_tests) (okeys repeat_tests) (to_content (fun _ => []) exg_e) 3 1
  = Ok (JObj [(name_of_base BGlobal, JObj [(name_of_sub SConst, JObj [([99]%N, JInt 7)]); (name_of_sub SSlices, JObj [])]);
              (name_of_base BVector, JObj [(name_of_sub SSamples, JObj [([107]%N, JArr (map JInt [1; 11]%Z))]);
                                           (name_of_sub SSlices, JObj [])])]) /\
  NoDup (keys_e exg_e) /\ bases_ok exg_h /\ Holds exg_empty exg_hr (fun _ => None) /\
  (forall c, class_valid exg_h c = true -> deg_ok exg_h exg_hr 3 c) /\
  side exg_h exg_hr 3 1 TSamples (map JInt [0; 1; 2; 10; 11; 12]%Z) /\ side exg_h exg_hr 3 1 GConst [JInt 7].
Proof.
  split; [vm_compute; reflexivity|]. split; [vm_compute; reflexivity|].
  split; [repeat constructor; cbn; intuition discriminate|].
  split; [intros c _; destruct c; reflexivity|].
  split.
  { constructor.
    - intros b Hb. destruct b; try discriminate Hb. reflexivity.
    - intros c Hc. exists []. destruct c; try discriminate Hc; (split; [reflexivity|]; split; [constructor | intros k; reflexivity]). }
  split.
  { intros c _ _ _ Hs Hb dest Hd Hm. destruct c; try discriminate Hs; try discriminate Hb.
    vm_compute in Hd. injection Hd as <-. vm_compute in Hm. discriminate Hm. }
  split.
  { intros _. split; [intros H; discriminate H|]. intros _ _ dd vals H. vm_compute in H. injection H as <- <-.
    split; [vm_compute; reflexivity|]. split; [intros H; discriminate H|]. split; [intros _; vm_compute; discriminate | intros H; discriminate H]. }
  intros H. exfalso. apply H. reflexivity.
Qed.
