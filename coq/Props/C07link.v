(** C07 (link)  "Every extension the library produces can be serialised and written."

    C07 proves closure of [Ext.Spec.valid] (working model [ext jv]); C10 proves that [Content.check_valid]
    (raw content [jv]) accepts exactly the format rules; C09 proves the JSON codec.  Here they are COMPOSED
    through the abstraction of Link/Abs.v: [to_content e] is the content dictionary the library holds for the
    extension [e] (key order of make_empty included).  [qtok] (universally quantified) renders an affine entry as
    a float token; it matters only for JSON well-formedness ([aff_toks_ok], stated for the affine at hand).

    Also here: the two models of [nitool inject] (Cli.Model.inject of C19, Ext.Ops.inject of C07) agree on the
    view [Abs.view e] of a valid extension. *)
From Coq Require Import List Bool Arith NArith ZArith QArith Lia.
From DV Require Import Common.Res Common.Str Common.Jv Common.PyNum.
From DV Require Cli.Model.
From DV Require Import Ext.Types Ext.Classes Ext.Seq Ext.Model Ext.Spec Ext.ValidFacts Ext.ProofsValidBase
     Ext.ProofsSimplifyCanon Ext.ProofsValidMerge Ext.Ops Ext.ProofsValidOps.
From DV Require Import Link.Abs Link.ProofsTo Link.ProofsOf Link.ProofsOps Link.ProofsCli Link.Examples.
Import ListNotations.
Local Open Scope nat_scope.

(** every valid extension passes the validity check of C10, meets its rules and lies in the domain of C10_iff *)
Theorem C07_valid_content :
  forall (qtok : Q -> str) (reo : option (list (list Q))) (e : ext jv),
    valid e ->
    CM.check_valid (to_content_r qtok reo e) = Ok tt /\
    CS.valid_spec (to_content_r qtok reo e) = true /\ CS.wf_domain (to_content_r qtok reo e) = true.
Proof. exact valid_to_content. Qed.

Example C07_valid_content_nonvacuous :
  valid lx5 /\ valid lx4 /\ valid lx3 /\
  CM.check_valid (to_content qtok_dec lx5) = Ok tt /\ CM.check_valid (to_content qtok_dec lx4) = Ok tt /\
  CM.check_valid (to_content qtok_dec lx3) = Ok tt /\
  (* dropping the (empty) 'time' dictionaries of the (2,2,3,1) extension is rejected *)
  CM.check_valid (to_content qtok_dec (mk_ext (mk_hdr [2; 2; 3; 1] (Some 2) lx_aff false false) (entries lx4))) = Err EInvalidExt.
Proof.
  split; [apply lx5_ok|]. split; [apply lx4_ok|]. split; [apply lx3_ok|]. repeat split; vm_compute; reflexivity.
Qed.

(** FULL STATEMENT (false, see the next theorem): check_valid (to_content e) = Ok tt -> valid e.
    Proved on the extensions that are the reading of a content dictionary ([storable]: every entry has a base
    dictionary, constants are singletons, the keys of one class are distinct) with base dictionaries exactly for
    the classes of the shape, positive extents and no key in a varying class of multiplicity one. *)
Theorem C07_content_valid_partial :
  forall (qtok : Q -> str) (reo : option (list (list Q))) (e : ext jv),
    storable e -> hdr_tight (hdr_of e) -> Forall (fun n => 1 <= n) (shape (hdr_of e)) -> nondegenerate e ->
    CM.check_valid (to_content_r qtok reo e) = Ok tt -> valid e.
Proof. exact to_content_valid_partial. Qed.

Example C07_content_valid_partial_nonvacuous :
  storable lx5 /\ hdr_tight (hdr_of lx5) /\ Forall (fun n => 1 <= n) (shape (hdr_of lx5)) /\ nondegenerate lx5 /\
  CM.check_valid (to_content qtok_dec lx5) = Ok tt.
Proof.
  split; [apply storable_of_valid, lx5_ok|]. split; [exact lx5_tight|].
  split; [repeat constructor|]. split; [apply lx5_ok | vm_compute; reflexivity].
Qed.

(** each dropped hypothesis is needed: ONE witness per hypothesis, satisfying the three others, on which the check passes
    and the extension is not valid:
    (1) [nondegenerate]: three values in ('time','samples') of multiplicity one;   (2) positive extents: a zero extent;
    (3) [hdr_tight]: a key (two values, multiplicity 2) in the stale 'time' dictionaries of a (2,2,2,1,2) extension;
    (4) [storable]: the same key when the 'time' dictionaries do not exist -- [to_content] has nowhere to put it.
    (1)-(3) are the blind spots of check_valid of the open finding N14 (a, c, b). *)
Theorem C07_content_valid_refuted :
  (storable lx_degenerate /\ hdr_tight (hdr_of lx_degenerate) /\ Forall (fun n => 1 <= n) (shape (hdr_of lx_degenerate)) /\
   ~ nondegenerate lx_degenerate /\
   CM.check_valid (to_content qtok_dec lx_degenerate) = Ok tt /\ ~ valid lx_degenerate) /\
  (storable lx_zero /\ hdr_tight (hdr_of lx_zero) /\ nondegenerate lx_zero /\
   ~ Forall (fun n => 1 <= n) (shape (hdr_of lx_zero)) /\
   CM.check_valid (to_content qtok_dec lx_zero) = Ok tt /\ ~ valid lx_zero) /\
  (storable lx_untight /\ Forall (fun n => 1 <= n) (shape (hdr_of lx_untight)) /\ nondegenerate lx_untight /\
   ~ hdr_tight (hdr_of lx_untight) /\
   CM.check_valid (to_content qtok_dec lx_untight) = Ok tt /\ ~ valid lx_untight) /\
  (hdr_tight (hdr_of lx_unstorable) /\ Forall (fun n => 1 <= n) (shape (hdr_of lx_unstorable)) /\ nondegenerate lx_unstorable /\
   ~ storable lx_unstorable /\
   CM.check_valid (to_content qtok_dec lx_unstorable) = Ok tt /\ ~ valid lx_unstorable).
Proof.
  assert (St : forall e : jext, (forall k c vs, In (k, (c, vs)) (entries e) -> has_base (hdr_of e) (base_of c) = true) ->
               (forall k vs, In (k, (GConst, vs)) (entries e) -> length vs = 1) ->
               length (entries e) = 1 -> storable e).
  { intros e H1 H2 H3. split; [exact H1|]. split; [exact H2|]. intros c. unfold class_entries.
    destruct (entries e) as [|x [|y l]]; try discriminate H3. cbn [filter]. destruct (cls_eqb _ c); repeat constructor; intros []. }
  assert (Nd : forall (h : hdr) k (vs : list jv), mult_spec (dims h) TSamples <> 1 -> nondegenerate (mk_ext h [(k, (TSamples, vs))])).
  { intros h k vs Hm k' c' vs' [[= <- <- <-]|[]] _. exact Hm. }
  split; [|split; [|split]].
  - split; [apply St; [intros k c vs [[= <- <- <-]|[]]; reflexivity | intros k vs [[=]|[]] | reflexivity]|].
    split; [intros c; destruct c; reflexivity|]. split; [repeat constructor|].
    split; [intros Hn; apply (Hn kt TSamples [JInt 1; JInt 2; JInt 3]); [left; reflexivity | discriminate | reflexivity]|].
    split; [vm_compute; reflexivity | apply not_valid_b; vm_compute; reflexivity].
  - split; [apply St; [intros k c vs [[= <- <- <-]|[]]; reflexivity | intros k vs [[= <- <-]|[]]; reflexivity | reflexivity]|].
    split; [intros c; destruct c; reflexivity|].
    split; [intros k c vs [[= <- <- <-]|[]] Hc; exfalso; apply Hc; reflexivity|].
    split; [intros Hp; inversion Hp as [|? ? H0 _]; subst; inversion H0|].
    split; [vm_compute; reflexivity | apply not_valid_b; vm_compute; reflexivity].
  - split; [apply St; [intros k c vs [[= <- <- <-]|[]]; reflexivity | intros k vs [[=]|[]] | reflexivity]|].
    split; [repeat constructor|]. split; [apply Nd; vm_compute; discriminate|].
    split; [intros H; specialize (H TSamples); discriminate H|].
    split; [vm_compute; reflexivity | apply not_valid_b; vm_compute; reflexivity].
  - split; [intros c; destruct c; reflexivity|]. split; [repeat constructor|]. split; [apply Nd; vm_compute; discriminate|].
    split; [intros [H _]; specialize (H kt TSamples [JInt 1; JInt 2] (or_introl eq_refl)); discriminate H|].
    split; [vm_compute; reflexivity | apply not_valid_b; vm_compute; reflexivity].
Qed.

(** a valid extension can be written (to_json with the REAL check_valid), and when its keys / values / affine
    tokens are JSON well formed the text loads back (from_json with the real check_valid) to the same content *)
Theorem C07_serialisable :
  forall (qtok : Q -> str) (reo : option (list (list Q))) (e : ext jv),
    valid e ->
    exists s, JM.to_json CM.check_valid (to_content_r qtok reo e) = Ok s /\
              (ext_wf_json e = true -> aff_toks_ok qtok (hdr_of e) = true -> reo_toks_ok qtok reo = true ->
               JM.from_json CM.check_valid s = Ok (to_content_r qtok reo e)).
Proof. exact serialisable. Qed.

Example C07_serialisable_nonvacuous :
  valid lx5 /\ ext_wf_json lx5 = true /\ aff_toks_ok qtok_dec (hdr_of lx5) = true /\
  JM.to_json CM.check_valid (to_content qtok_dec lx5) = Ok (JM.print (to_content qtok_dec lx5)) /\
  JM.from_json CM.check_valid (JM.print (to_content qtok_dec lx5)) = Ok (to_content qtok_dec lx5) /\
  length (JM.print (to_content qtok_dec lx5)) = 1712 /\
  (* with a reorientation transform, as after a conversion with a voxel order *)
  reo_toks_ok qtok_dec lx_reo = true /\
  JM.from_json CM.check_valid (JM.print (to_content_r qtok_dec lx_reo lx5)) = Ok (to_content_r qtok_dec lx_reo lx5) /\
  to_content_r qtok_dec lx_reo lx5 <> to_content qtok_dec lx5.
Proof.
  split; [apply lx5_ok|]. repeat split; try (vm_compute; reflexivity). vm_compute. discriminate.
Qed.

(** EVERY extension produced by a finite history of the operations of C07_closure (get_subset, from_sequence,
    filter_meta, clear_slice_meta, nitool inject; each inside its precondition) is valid, passes check_valid, can be
    serialised, and reloads to itself when its keys / values / affine tokens are JSON well formed *)
Theorem C07_closure_serialisable :
  forall (qtok : Q -> str) (reo : option (list (list Q))) (veqb : jv -> jv -> bool) (vnone : jv),
    (forall v, veqb v v = true) ->
    forall (ops : list (op jv)) (e r : ext jv),
      valid e -> nondegenerate e -> ops_dom veqb vnone ops e -> run veqb vnone ops e = Ok r ->
      valid r /\ nondegenerate r /\
      CM.check_valid (to_content_r qtok reo r) = Ok tt /\
      exists s, JM.to_json CM.check_valid (to_content_r qtok reo r) = Ok s /\
                (ext_wf_json r = true -> aff_toks_ok qtok (hdr_of r) = true -> reo_toks_ok qtok reo = true ->
                 JM.from_json CM.check_valid s = Ok (to_content_r qtok reo r)).
Proof. exact closure_serialisable. Qed.

Definition lx_ops : list (op jv) :=
  [OSubset 4 1; OFilter (fun k _ => key_eqb k kv); OClearSlices; OInject GConst [110]%N [JInt 7] false; OSubset 3 2].

Example C07_closure_serialisable_nonvacuous :
  valid lx5 /\ nondegenerate lx5 /\ ops_dom jv_eqb JNull lx_ops lx5 /\
  exists r, run jv_eqb JNull lx_ops lx5 = Ok r /\ shape (hdr_of r) = [2; 2; 2] /\
            map fst (entries r) = [kt; kc; [110]%N] /\
            ext_wf_json r = true /\ aff_toks_ok qtok_dec (hdr_of r) = true /\
            JM.from_json CM.check_valid (JM.print (to_content qtok_dec r)) = Ok (to_content qtok_dec r).
Proof.
  split; [apply lx5_ok|]. split; [apply lx5_ok|]. split.
  - unfold lx_ops. cbn [ops_dom].
    split; [cbn; split; lia|]. intros e1 H1. vm_compute in H1. injection H1 as <-.
    split; [exact I|]. intros e2 H2. vm_compute in H2. injection H2 as <-.
    split; [exact I|]. intros e3 H3. vm_compute in H3. injection H3 as <-.
    split; [left; reflexivity|]. intros e4 H4. vm_compute in H4. injection H4 as <-.
    split; [cbn; split; lia|]. intros e5 H5. exact I.
  - eexists. split; [vm_compute; reflexivity|]. repeat split; vm_compute; reflexivity.
Qed.

(** ... and WITHOUT any hypothesis on the result: the operations never invent a value or a key (provenance,
    Link/ProofsProv.v), so when the starting extension and everything the history brings in from outside (merge
    partners and affine argument, injected key and values: [ops_jsonable]) is JSON well formed ([jsonable]: keys are
    strings of Unicode scalar values, values satisfy Json.wf, the affine entries render as float tokens), EVERY extension
    the history produces is valid, is written by to_json and read back by from_json (both with the real check_valid)
    to the very same content *)
Theorem C07_closure_reloads :
  forall (qtok : Q -> str) (reo : option (list (list Q))) (veqb : jv -> jv -> bool),
    (forall v, veqb v v = true) ->
    forall (ops : list (op jv)) (e r : ext jv),
      valid e -> nondegenerate e -> ops_dom veqb JNull ops e -> jsonable qtok e -> ops_jsonable qtok ops ->
      reo_toks_ok qtok reo = true ->
      run veqb JNull ops e = Ok r ->
      valid r /\ nondegenerate r /\ jsonable qtok r /\
      JM.to_json CM.check_valid (to_content_r qtok reo r) = Ok (JM.print (to_content_r qtok reo r)) /\
      JM.from_json CM.check_valid (JM.print (to_content_r qtok reo r)) = Ok (to_content_r qtok reo r).
Proof. exact closure_reloads. Qed.

Definition lx5_p0 : ext jv := match get_subset jv_eqb JNull lx5 4 0 with Ok r => r | Err _ => lx5 end.
Definition lx_ops2 : list (op jv) :=
  [OSubset 4 1; OMerge [lx5_p0] [] 4 (Some lx_aff) None; OFilter (fun k _ => key_eqb k kv); OClearSlices;
   OInject GConst [110]%N [JStr [252]%N] false; OSubset 3 2].

Example C07_closure_reloads_nonvacuous :
  valid lx5 /\ nondegenerate lx5 /\ ops_dom jv_eqb JNull lx_ops2 lx5 /\ jsonable qtok_dec lx5 /\ ops_jsonable qtok_dec lx_ops2 /\
  exists r, run jv_eqb JNull lx_ops2 lx5 = Ok r /\ shape (hdr_of r) = [2; 2; 2; 1; 2] /\
            map fst (entries r) = [kt; kc; [110]%N].
Proof.
  split; [apply lx5_ok|]. split; [apply lx5_ok|]. split; [|split; [|split]].
  - unfold lx_ops2. cbn [ops_dom].
    split; [cbn; split; lia|]. intros e1 H1. vm_compute in H1. injection H1 as <-.
    split.
    { cbn [op_dom]. split.
      - intros x [<-|[]]. apply valid_of_b; vm_compute; reflexivity.
      - cbn [app merge_dom]. split; [reflexivity|]. intros e [<-|[<-|[]]]; split; vm_compute; reflexivity. }
    intros e2 H2. vm_compute in H2. injection H2 as <-.
    split; [exact I|]. intros e3 H3. vm_compute in H3. injection H3 as <-.
    split; [exact I|]. intros e4 H4. vm_compute in H4. injection H4 as <-.
    split; [left; reflexivity|]. intros e5 H5. vm_compute in H5. injection H5 as <-.
    split; [cbn; split; lia|]. intros e6 H6. exact I.
  - split; vm_compute; reflexivity.
  - unfold lx_ops2, ops_jsonable. cbn [ProofsProv.ops_ok ProofsProv.op_ok]. repeat split.
    + constructor; [|constructor]. apply jsonable_inv. split; vm_compute; reflexivity.
    + intros a [= <-]. vm_compute. reflexivity.
    + constructor; [vm_compute; reflexivity | constructor].
  - eexists. split; [vm_compute; reflexivity|]. split; vm_compute; reflexivity.
Qed.

(** nitool inject: the command-line model of C19 on the view of a valid extension and the extension-level model
    of C07 on the converted values refuse together, and when they accept the views of the results coincide
    (class dictionaries equal with their key order).  [values <> []]: argparse nargs='+'.  The side condition on
    the class is that of C07_inject, i.e. exactly the region of the open finding N10 (a single value injected into a
    varying class of multiplicity one is stored bare by the command: outside [nondegenerate]). *)
Theorem C07_C19_inject_models_agree :
  forall (ftok : fval -> str) (e : ext jv) (c : cls) (k : key) (values : list str) (ty : option str) (force : bool)
         (sv : Cli.Model.stored),
    valid e -> values <> [] -> Cli.Model.convert_values values ty = Ok sv ->
    (c = GConst \/ mult_spec (dims (hdr_of e)) c <> 1) ->
    match Cli.Model.inject (stored_jv ftok) (view e) (name_of_cls c) k values ty force with
    | Ok (rc, Some m') =>
        rc = 0%Z /\ exists e', inject e c k (stored_values ftok sv) force = Ok e' /\ mext_eq m' (view e')
    | Ok (rc, None) => rc = 1%Z /\ inject e c k (stored_values ftok sv) force = Err EValue
    | Err _ => False
    end.
Proof. exact inject_models_agree. Qed.

Example C07_C19_inject_models_agree_nonvacuous :
  valid lx5 /\
  match Cli.Model.convert_values [L2; L25] None with
  | Ok sv => stored_values lx_ftok sv = [JNum [50; 46; 48]%N; JNum [50; 46; 53]%N]
  | Err _ => False
  end /\
  match Cli.Model.inject (stored_jv lx_ftok) (view lx5) (name_of_cls VSamples) [110]%N [L2; L25] None false with
  | Ok (rc, Some m') =>
      rc = 0%Z /\ Cli.Model.x_dict m' (name_of_cls VSamples) =
        [(kv, JArr [JStr [97]%N; JStr [252; 98]%N]); ([110]%N, JArr [JNum [50; 46; 48]%N; JNum [50; 46; 53]%N])]
  | _ => False
  end /\
  match inject lx5 VSamples [110]%N [JNum [50; 46; 48]%N; JNum [50; 46; 53]%N] false with
  | Ok e' => class_obj e' VSamples =
        [(kv, JArr [JStr [97]%N; JStr [252; 98]%N]); ([110]%N, JArr [JNum [50; 46; 48]%N; JNum [50; 46; 53]%N])]
  | Err _ => False
  end /\
  Cli.Model.inject (stored_jv lx_ftok) (view lx5) (name_of_cls VSamples) kv [L2; L25] None false = Ok (1%Z, None) /\
  inject lx5 VSamples kv [JNum [50; 46; 48]%N; JNum [50; 46; 53]%N] false = Err EValue.
Proof.
  split; [apply lx5_ok|]. split; [vm_compute; reflexivity|]. split; [vm_compute; split; reflexivity|].
  split; [vm_compute; reflexivity|]. split; vm_compute; reflexivity.
Qed.
