#!/venv/bin/python
"""Reproducers for the genuine defects found in moloney/dcmstack (DESIGN.md section 7).

Usage:  PYTHONPATH=<repo>/src /venv/bin/python findings/repro.py [F1 F2 ...]

Each function returns None when the defect is ABSENT (repaired tree) and a
message when it is PRESENT.  Run against the pinned commit every one of them
reports PRESENT; against the tree with the `fix:` commits every one reports
absent (F12 stays open, see known-findings.txt).
"""
import sys, os, warnings, io, contextlib
warnings.simplefilter('ignore')
REPO = os.environ.get('DCMSTACK_REPO', '/repo')
sys.path.insert(0, os.path.join(REPO, 'src'))
import numpy as np
import nibabel as nb
from collections import OrderedDict
import dcmstack
from dcmstack import dcmmeta, extract
from dcmstack.dcmmeta import DcmMetaExtension, NiftiWrapper


def _wrp(shape, slice_dim=2):
    img = nb.Nifti1Image(np.zeros(shape, dtype=np.int16), np.eye(4))
    img.header.set_dim_info(None, None, slice_dim)
    w = NiftiWrapper(img, make_empty=True)
    return w


def F1():
    w = _wrp((2, 2, 2, 3, 2))
    w.meta_ext.get_class_dict(('time', 'samples'))['k'] = list(range(6))
    got = w.get_meta('k', (0, 0, 0, 1, 1))
    if got != 4:
        return 'get_meta time-samples 5D index (..,1,1) -> %r, expected 4' % (got,)


def F2():
    img = nb.Nifti1Image(np.zeros((2, 2, 2), dtype=np.int16), np.eye(4))
    ext = DcmMetaExtension.make_empty((2, 2, 2), np.eye(4), None, 2)
    ext.get_class_dict(('global', 'slices'))['k'] = [1, 2]
    img.header.extensions.append(ext)
    w = NiftiWrapper(img)
    try:
        got = w.get_meta('k', (0, 0, 1), 'dflt')
    except Exception as e:
        return 'missing slice dim_info -> %s' % type(e).__name__
    if got != 'dflt':
        return 'missing slice dim_info -> %r' % (got,)


def F3():
    img = nb.Nifti1Image(np.zeros((2, 2, 2), dtype=np.int16), np.eye(4))
    img.header.set_dim_info(None, None, 2)
    ext = DcmMetaExtension.make_empty((2, 2, 2, 2, 2), np.eye(4), None, 2)
    ext.get_class_dict(('vector', 'slices'))['k'] = [1, 2, 3, 4]
    img.header.extensions.append(ext)
    w = NiftiWrapper(img)
    try:
        got = w.get_meta('k', (0, 0, 1), 'dflt')
    except Exception as e:
        return '3D image + vector-slices key -> %s' % type(e).__name__
    if got != 'dflt':
        return '3D image + vector-slices -> %r' % (got,)


def F4():
    exts = []
    for i in range(2):
        e = DcmMetaExtension.make_empty((2, 2, 2, 1, 2), np.eye(4), None, 2)
        e.get_class_dict(('global', 'const'))['k'] = i
        exts.append(e)
    try:
        r = DcmMetaExtension.from_sequence(exts, 3)
    except Exception as e:
        return 'merge (X,Y,Z,1,V) along time, constant differs -> %s' % type(e).__name__
    w = _wrp((2, 2, 2, 2, 2))
    w.replace_extension(r)
    for t in range(2):
        for v in range(2):
            got = w.get_meta('k', (0, 0, 0, t, v))
            if got != t:
                return 'merged lookup (t=%d,v=%d) -> %r' % (t, v, got)


def F5():
    w = _wrp((2, 2, 2, 1, 2))
    w.meta_ext.get_class_dict(('global', 'slices'))['k'] = [0, 1, 2, 3]
    for i, p in enumerate(w.split(4)):
        if tuple(p.nii_img.shape) != tuple(p.meta_ext.shape):
            return 'split (X,Y,Z,1,V) dim 4: image %s vs ext %s' % (p.nii_img.shape, p.meta_ext.shape)


def F6():
    e = DcmMetaExtension.make_empty((2, 2, 2, 1), np.eye(4), None, 2)
    try:
        e.check_valid()
    except dcmmeta.InvalidExtensionError as ex:
        return 'make_empty((2,2,2,1)) invalid: %s' % ex


def F7():
    e = DcmMetaExtension.make_empty((2, 2, 2), np.eye(4), None, 2)
    try:
        s = str(e)
    except TypeError as ex:
        return 'str(ext) -> TypeError'
    if s != e.to_json():
        return 'str(ext) != to_json()'


def F8():
    e = DcmMetaExtension.make_empty((2, 2, 2), np.eye(4), None, 2)
    try:
        e2 = DcmMetaExtension.from_runtime_repr(e._content)
    except AttributeError:
        return 'from_runtime_repr -> AttributeError'
    if not e2 == e:
        return 'from_runtime_repr result differs'


def F9():
    msgs = []
    got = extract._parse_phoenix_line('b = "xy"', '"')
    if got != ('b', 'xy'):
        msgs.append('single-quote dialect: %r' % (got,))
    try:
        got = extract._parse_phoenix_line('k = ""x', '""')
        msgs.append('unterminated quote accepted: %r' % (got,))
    except extract.PhoenixParseError:
        pass
    return '; '.join(msgs) or None


def F10():
    from dcmstack import dcmstack_cli
    before = (list(dcmstack.default_key_excl_res), list(dcmstack.default_key_incl_res))
    import tempfile
    d = tempfile.mkdtemp(prefix='f10_', dir=os.environ.get('VERIF_WORK', '/verif/work') if os.path.isdir(os.environ.get('VERIF_WORK', '/verif/work')) else None)
    try:
        with contextlib.redirect_stdout(io.StringIO()), contextlib.redirect_stderr(io.StringIO()):
            try:
                dcmstack_cli.main(['dcmstack', '-e', 'Foo', '-i', 'Bar', d])
            except SystemExit:
                pass
    finally:
        os.rmdir(d)
    after = (list(dcmstack.default_key_excl_res), list(dcmstack.default_key_incl_res))
    if before != after:
        return 'module default regex lists mutated by a CLI call (%d->%d excl, %d->%d incl)' % (
            len(before[0]), len(after[0]), len(before[1]), len(after[1]))


def _mk_ds(ipp=(0., 0., 0.), inst=1, extra=None, rows=2, cols=2):
    import pydicom
    from pydicom.dataset import Dataset, FileMetaDataset
    from pydicom.uid import ExplicitVRLittleEndian, generate_uid
    ds = Dataset()
    ds.file_meta = FileMetaDataset()
    ds.file_meta.TransferSyntaxUID = ExplicitVRLittleEndian
    ds.file_meta.MediaStorageSOPClassUID = '1.2.840.10008.5.1.4.1.1.4'
    ds.file_meta.MediaStorageSOPInstanceUID = '1.2.3.%d' % inst
    ds.SOPClassUID = '1.2.840.10008.5.1.4.1.1.4'
    ds.SOPInstanceUID = '1.2.3.%d' % inst
    ds.SeriesInstanceUID = '1.2.3'
    ds.SeriesNumber = 1
    ds.ProtocolName = 'a'
    ds.Rows = rows
    ds.Columns = cols
    ds.PixelSpacing = [1.0, 1.0]
    ds.ImageOrientationPatient = [1., 0., 0., 0., 1., 0.]
    ds.ImagePositionPatient = list(ipp)
    ds.InstanceNumber = inst
    ds.BitsAllocated = 16
    ds.BitsStored = 12
    ds.HighBit = 11
    ds.PixelRepresentation = 0
    ds.SamplesPerPixel = 1
    ds.PhotometricInterpretation = 'MONOCHROME2'
    ds.PixelData = (np.arange(rows * cols, dtype=np.uint16) + inst).tobytes()
    for k, v in (extra or {}).items():
        setattr(ds, k, v)
    return ds


def F11():
    import tempfile, shutil
    d = tempfile.mkdtemp(prefix='f11_')
    try:
        p = os.path.join(d, 'a.dcm')
        _mk_ds().save_as(p, enforce_file_format=True)
        try:
            with warnings.catch_warnings():
                warnings.simplefilter('ignore')
                g = dcmstack.parse_and_group([p])
        except AttributeError as e:
            return 'parse_and_group on a readable file -> AttributeError (%s)' % e
        if len(g) != 1:
            return 'parse_and_group grouped %d groups for 1 readable file' % len(g)
    finally:
        shutil.rmtree(d)


def F12():
    # open finding: same translator bound in two private blocks
    return None


def F13():
    import tempfile, shutil
    from dcmstack import dcmstack_cli
    import pydicom
    if not hasattr(pydicom, 'read_file'):
        pydicom_shim = True
    d = tempfile.mkdtemp(prefix='f13_')
    out = tempfile.mkdtemp(prefix='f13o_')
    try:
        names = ['a-002', 'a', 'a']
        for i, n in enumerate(names):
            ds = _mk_ds(inst=i + 1, extra={'ProtocolName': n, 'SeriesNumber': i + 1,
                                            'SeriesInstanceUID': '1.2.3.%d' % (i + 1)})
            ds.save_as(os.path.join(d, '%d.dcm' % i), enforce_file_format=True)
        saved = getattr(pydicom, 'read_file', None)
        if saved is None:
            pydicom.read_file = pydicom.dcmread
        try:
            with contextlib.redirect_stdout(io.StringIO()), contextlib.redirect_stderr(io.StringIO()), warnings.catch_warnings():
                warnings.simplefilter('ignore')
                try:
                    dcmstack_cli.main(['dcmstack', '--output-name', '%(ProtocolName)s', '--dest-dir', out, d])
                except SystemExit:
                    pass
        finally:
            if saved is None:
                del pydicom.read_file
        n_out = len([f for f in os.listdir(out) if f.endswith('.nii.gz')])
        if n_out != 3:
            return '3 groups -> %d files (%s)' % (n_out, sorted(os.listdir(out)))
    finally:
        shutil.rmtree(d)
        shutil.rmtree(out)


def F14():
    st = dcmstack.DicomStack(time_order='InstanceNumber')
    a = _mk_ds(inst=1, extra={'RepetitionTime': 100.0})
    b = _mk_ds(inst=1, extra={'RepetitionTime': 200.0})   # collides with a
    st.add_dcm(a)
    try:
        st.add_dcm(b)
    except dcmstack.ImageCollisionError:
        pass
    else:
        return 'no collision raised'
    nii = st.to_nifti(voxel_order='')
    if float(nii.header['pixdim'][4]) != 100.0:
        return 'rejected add changed the result: pixdim[4]=%r (expected 100.0)' % float(nii.header['pixdim'][4])


def F15():
    # guessed ordering: two files tie on (EchoTime, position) and straddle a volume boundary
    def mk(inst, te, z):
        return _mk_ds(ipp=(0., 0., float(z)), inst=inst, extra={'EchoTime': float(te)})
    specs = [(1, 10, 0), (2, 10, 0), (3, 10, 1), (4, 20, 1)]
    outs = []
    for order in ([0, 1, 2, 3], [1, 0, 2, 3]):
        st = dcmstack.DicomStack()
        for i in order:
            st.add_dcm(mk(*specs[i]))
        try:
            outs.append(np.asarray(st.to_nifti(voxel_order='').dataobj).tobytes())
        except dcmstack.InvalidStackError:
            outs.append(None)
    if outs[0] is not None or outs[1] is not None:
        return 'incomplete grid (cell TE=10,z=0 filled twice, TE=20,z=0 empty) converts%s' % (
            '; result depends on add order' if outs[0] != outs[1] else '')


def F16():
    e = DcmMetaExtension.make_empty((2, 2, 2, 2, 2), np.eye(4), None, None)
    try:
        r = e.get_subset(3, 0)
    except TypeError as ex:
        return 'get_subset(3,0) of an empty 5-D extension without slice dim -> TypeError'
    if tuple(r.shape) != (2, 2, 2, 1, 2):
        return 'unexpected shape %s' % (r.shape,)


def F17():
    ws = []
    for i, sl in enumerate((2, 1)):
        img = nb.Nifti1Image(np.zeros((2, 3, 2), dtype=np.int16) + i, np.eye(4))
        img.header.set_dim_info(None, None, sl)
        ws.append(NiftiWrapper(img, make_empty=True))
    try:
        NiftiWrapper.from_sequence(ws, 3)
    except Exception as ex:
        return 'merging images whose dim_info slice entries differ (2 vs 1) -> %s' % type(ex).__name__


def F18():
    import tempfile, shutil
    from dcmstack import dcmstack_cli
    root = tempfile.mkdtemp(prefix='f18_')
    try:
        out = os.path.join(root, 'out'); os.mkdir(out)
        for d in ('d0', 'd1'):
            os.mkdir(os.path.join(root, d))
            ds = _mk_ds(inst=1, extra={'ProtocolName': 'b c', 'SeriesNumber': 8, 'SeriesInstanceUID': '1.2.3.' + d[1:] + '9'})
            ds.save_as(os.path.join(root, d, 'a.dcm'), enforce_file_format=True)
        with contextlib.redirect_stdout(io.StringIO()), contextlib.redirect_stderr(io.StringIO()), warnings.catch_warnings():
            warnings.simplefilter('ignore')
            try:
                dcmstack_cli.main(['dcmstack', '--dest-dir', out, os.path.join(root, 'd0'), os.path.join(root, 'd1')])
            except SystemExit:
                pass
        n = len([f for f in os.listdir(out) if f.endswith('.nii.gz')])
        if n != 2:
            return '--dest-dir with two source directories holding equally named series: %d file(s) written for 2 groups' % n
    finally:
        shutil.rmtree(root)


def F19():
    import json
    ds = _mk_ds()
    del ds.PixelData
    ds.FloatPixelData = np.arange(4, dtype=np.float32).tobytes()
    meta = extract.default_extractor(ds)
    if 'FloatPixelData' in meta:
        return 'FloatPixelData (7FE0,0008) extracted as meta data by the default extractor'


def F20():
    st = dcmstack.DicomStack()
    a = _mk_ds(ipp=(0., 0., 0.), inst=1, extra={'AcquisitionTime': '120000.0'})
    b = _mk_ds(ipp=(0., 0., 1.), inst=2, extra={'AcquisitionTime': '120000.5'})
    c = _mk_ds(ipp=(0., 0., 2.), inst=3)
    for ds in (a, b, c):
        st.add_dcm(ds)
    out = []
    for vo in ('LAS', 'LAI', ''):
        try:
            st.to_nifti(voxel_order=vo)
            out.append('ok')
        except KeyError:
            out.append('KeyError')
    if 'KeyError' in out:
        return 'complete stack, AcquisitionTime missing in one file: to_nifti LAS/LAI/"" -> %s' % out


def F21():
    st = dcmstack.DicomStack()
    a = _mk_ds(ipp=(0., 0., 1.), inst=1)                       # sorts first (normal is -z), no rescale, BitsStored 12
    b = _mk_ds(ipp=(0., 0., 0.), inst=2, extra={'RescaleSlope': 0.5, 'RescaleIntercept': 0.25})
    st.add_dcm(a); st.add_dcm(b)
    data = st.get_data()
    want = (np.arange(4, dtype=np.uint16) + 2) * 0.5 + 0.25
    got = np.sort(data[:, :, 1].ravel().astype(float))
    if not np.array_equal(got, np.sort(want)):
        return 'per-file rescale: values of the rescaled file %s come out as %s (dtype %s)' % (list(want), list(got), data.dtype)


def F22():
    import tempfile, shutil, subprocess, textwrap
    d = tempfile.mkdtemp(prefix='f22_')
    try:
        p = os.path.join(d, 'a.nii')
        data = (np.arange(16 * 16 * 8, dtype=np.int16) * 7 % 1000).reshape(16, 16, 8)
        img = nb.Nifti1Image(data, np.eye(4)); img.header.set_dim_info(None, None, 2)
        NiftiWrapper(img, make_empty=True).to_filename(p)
        code = textwrap.dedent('''
            import sys, argparse, warnings; warnings.simplefilter('ignore')
            sys.path.insert(0, %r)
            from dcmstack import nitool_cli
            rc = nitool_cli.inject(argparse.Namespace(dest_nii=[%r], classification=['global','const'], key=['K'], values=['abc'], force_overwrite=False, type=None))
            sys.exit(rc or 0)''' % (os.path.join(REPO, 'src'), p))
        r = subprocess.run([sys.executable, '-c', code], capture_output=True)
        if r.returncode != 0:
            return 'nitool inject on an uncompressed .nii: process exit status %d (SIGBUS = -7 / 135)' % r.returncode
        back = np.asanyarray(nb.load(p).dataobj)
        if not np.array_equal(back, data):
            return 'nitool inject on an uncompressed .nii corrupted the voxel data'
    finally:
        shutil.rmtree(d)


def F23():
    e = DcmMetaExtension.make_empty((2, 2, 2), np.eye(4), None, 2)
    try:
        e.get_multiplicity(('time', 'samples'))
    except ValueError:
        return None
    except TypeError:
        return "get_multiplicity(('time','samples')) on a 3-D extension raises TypeError instead of ValueError"


def F24():
    import tempfile, shutil, subprocess, textwrap
    d = tempfile.mkdtemp(prefix='f24_')
    try:
        p = os.path.join(d, 'a.nii')
        data = (np.arange(192 * 192 * 6, dtype=np.int16) * 7 % 1000).reshape(192, 192, 6)
        img = nb.Nifti1Image(data, np.eye(4)); img.header.set_dim_info(None, None, 2)
        NiftiWrapper(img, make_empty=True).to_filename(p)
        code = textwrap.dedent("""
            import sys, warnings; warnings.simplefilter('ignore')
            sys.path.insert(0, %r)
            from dcmstack import nitool_cli
            sys.exit(nitool_cli.main(['nitool', 'dump', '-r', %r, %r]) or 0)""" % (os.path.join(REPO, 'src'), p, os.path.join(d, 'm.json')))
        r = subprocess.run([sys.executable, '-c', code], capture_output=True)
        if r.returncode != 0:
            return 'nitool dump -r on an uncompressed .nii: process exit status %d (SIGBUS = -7 / 135), file size now %d' % (r.returncode, os.path.getsize(p))
        back = np.asanyarray(nb.load(p).dataobj)
        if not np.array_equal(back, data):
            return 'nitool dump -r on an uncompressed .nii corrupted the voxel data'
    finally:
        shutil.rmtree(d)


def F25():
    st = dcmstack.DicomStack()
    dss = [_mk_ds(ipp=(0., 0., float(z)), inst=z + 1) for z in range(4)]
    st.add_dcm(dss[0]); st.add_dcm(dss[2])
    a1 = st.get_affine(); snap = a1.copy()
    st.add_dcm(dss[1]); st.add_dcm(dss[3])
    a2 = st.get_affine()
    if not np.array_equal(a1, snap):
        return 'an affine returned earlier by get_affine changed after add_dcm + a new get_affine (same array object: %s)' % (a1 is a2)
    a2[0, 0] = 99.0
    if st.get_affine()[0, 0] == 99.0:
        return 'editing the array returned by get_affine changes every later get_affine / to_nifti of the stack'


def F26():
    import pydicom, json
    from dcmstack import extract
    ds = pydicom.dataset.Dataset()
    ds.add_new((0x0066, 0x0016), 'OF', b'\x00\x00\x80\x3f')
    ds.add_new((0x0066, 0x0040), 'OL', b'\x01\x00\x00\x00')
    ds.add_new((0x0070, 0x150d), 'OD', b'\x00' * 8)
    r = extract.MetaExtractor()(ds)
    try:
        json.dumps(r)
    except TypeError as e:
        return 'the default extractor returns raw bytes for OF/OL/OD elements: %s (%s)' % (sorted(k for k, v in r.items() if isinstance(v, bytes)), e)


def F27():
    import tempfile, shutil
    d = tempfile.mkdtemp(prefix='f27_')
    try:
        ds = _mk_ds(ipp=(0., 0., 0.), inst=1, extra={'AcquisitionNumber': 7})
        p = os.path.join(d, 'a.dcm')
        import pydicom
        pydicom.dcmwrite(p, ds, enforce_file_format=True)
        with warnings.catch_warnings():
            warnings.simplefilter('ignore')
            r = dcmstack.parse_and_stack([p], warn_on_except=True,
                                         time_order=dcmstack.DicomOrdering('AcquisitionNumber', abs_ordering=[1, 2, 3]))
        empty = [k for k, st in r.items() if len(st._files_info) == 0]
        if empty:
            return 'parse_and_stack returns %d group(s) holding an empty DicomStack (every file of the group was refused); without the file the result is {}' % len(empty)
    finally:
        shutil.rmtree(d)


def F28():
    import tempfile, shutil, subprocess, textwrap
    d = tempfile.mkdtemp(prefix='f28_')
    try:
        p = os.path.join(d, 'x.nii')
        data = (np.arange(64 * 64 * 8, dtype=np.int16) % 997).reshape(64, 64, 8)
        img = nb.Nifti1Image(data, np.eye(4)); img.header.set_dim_info(None, None, 2)
        for n in (10, 100000):
            NiftiWrapper(img, make_empty=True).to_filename(p)
            code = textwrap.dedent("""
                import sys; sys.path.insert(0, %r)
                from dcmstack.dcmmeta import NiftiWrapper
                nw = NiftiWrapper.from_filename(%r)
                nw.meta_ext.get_class_dict(('global', 'const'))['K'] = 'v' * %d
                nw.to_filename(%r)""" % (os.path.join(REPO, 'src'), p, n, p))
            r = subprocess.run([sys.executable, '-c', code], capture_output=True)
            if r.returncode != 0:
                return 'from_filename + to_filename over the same .nii: process exit status %d (SIGBUS = -7), file size now %d' % (r.returncode, os.path.getsize(p))
            if not np.array_equal(np.asanyarray(nb.load(p).dataobj), data):
                return 'from_filename + to_filename over the same .nii (extension grown by %d bytes) corrupted the voxel data' % n
    finally:
        shutil.rmtree(d)


def _rot_case(tag):
    """a valid file with the VR of element `tag` damaged (implicit knowledge of explicit-VR layout: tag(4) VR(2))"""
    import tempfile, pydicom, struct
    d = tempfile.mkdtemp(prefix='rot_')
    good = os.path.join(d, 'good.dcm'); bad = os.path.join(d, 'bad.dcm')
    pydicom.dcmwrite(good, _mk_ds(ipp=(0., 0., 0.), inst=1), enforce_file_format=True)
    pydicom.dcmwrite(bad, _mk_ds(ipp=(0., 0., 1.), inst=2), enforce_file_format=True)
    raw = bytearray(open(bad, 'rb').read())
    pat = struct.pack('<HH', *tag)
    i = raw.find(pat, 132)
    raw[i + 4:i + 6] = b'UY'
    open(bad, 'wb').write(bytes(raw))
    return d, good, bad


def _rot_run(tag):
    import shutil
    d, good, bad = _rot_case(tag)
    try:
        with warnings.catch_warnings():
            warnings.simplefilter('ignore')
            try:
                r = dcmstack.parse_and_group([good, bad], warn_on_except=True)
            except Exception as e:
                return 'parse_and_group(warn_on_except=True) raised %s for a file whose (%04x,%04x) element header is damaged' % ((type(e).__name__,) + tag)
            r0 = dcmstack.parse_and_group([good], warn_on_except=True)
        if sorted(map(repr, r.keys())) != sorted(map(repr, r0.keys())):
            return 'the damaged file was not isolated: groups %r vs %r' % (list(r.keys()), list(r0.keys()))
    finally:
        shutil.rmtree(d)


def F29():
    return _rot_run((0x0008, 0x0016))


def F30():
    return _rot_run((0x7fe0, 0x0010))


# ---- open findings (recorded in known-findings.txt, not repaired): these report PRESENT on the current tree
def N1():
    e = DcmMetaExtension.make_empty((2, 2, 2, 1), np.eye(4), None, 2)
    try:
        DcmMetaExtension.from_sequence([e, deepcopy_ext(e)], 4)
    except KeyError as ex:
        return 'from_sequence of two (2,2,2,1) extensions along dim 4 -> KeyError %s' % ex


def N2():
    e = DcmMetaExtension.make_empty((2, 2, 2, 1), np.eye(4), None, 2)
    e.get_class_dict(('time', 'slices'))['k'] = [1, 2]
    try:
        e.get_subset(0, 0)
    except KeyError as ex:
        return 'get_subset(0,0) of a (2,2,2,1) extension with a time-slices key -> KeyError %s' % ex


def N3():
    es = []
    for v in ([1, 2], [3, 4]):
        e = DcmMetaExtension.make_empty((2, 2, 2, 2), np.eye(4), None, None)
        e.get_class_dict(('time', 'samples'))['k'] = v
        es.append(e)
    try:
        DcmMetaExtension.from_sequence(es, 4)
    except TypeError as ex:
        return 'merge of (2,2,2,2) extensions without slice dim along dim 4, time-samples key differs -> TypeError'


def N4():
    es = []
    for i in range(2):
        e = DcmMetaExtension.make_empty((2, 1, 2, 1), np.eye(4), None, 2)
        e.get_class_dict(('global', 'slices'))['k'] = [1, 2]
        es.append(e)
    try:
        DcmMetaExtension.from_sequence(es, 1)
    except ValueError as ex:
        return 'merge of (2,1,2,1) extensions along dim 1 with a global-slices key -> ValueError (%s)' % ex


def N6():
    a = DcmMetaExtension.make_empty((1, 2, 2, 2), np.eye(4), None, 2)
    a.get_class_dict(('global', 'const'))['k'] = 5
    b = DcmMetaExtension.make_empty((1, 2, 2, 2), np.eye(4), None, 2)
    b.get_class_dict(('time', 'samples'))['k'] = [5, 5]
    r = DcmMetaExtension.from_sequence([a, b], 0)
    c = r.get_classification('k')
    if c != ('global', 'const'):
        return 'merge along non-slice dim 0 of const 5 and widened time-samples [5,5]: k stored as %r' % (c,)


def N8():
    ws = []
    for i, sl in enumerate((2, None)):
        img = nb.Nifti1Image(np.zeros((2, 3, 2), dtype=np.int16) + i, np.eye(4))
        img.header.set_dim_info(None, None, sl)
        ws.append(NiftiWrapper(img, make_empty=True))
    r = NiftiWrapper.from_sequence(ws, 3)
    h, e = r.nii_img.header.get_dim_info()[2], r.meta_ext.slice_dim
    if h != e:
        return 'merge of images with header slice dims (2, None): result header slice %r but extension slice_dim %r' % (h, e)


def N9():
    st = dcmstack.DicomStack(time_order='EchoTime')
    n = 0
    for te in (10.0, 20.0):
        for z in (0.0, 1.0):
            n += 1
            ds = _mk_ds(ipp=(0., 0., z), inst=n, extra={'EchoTime': te})
            if te == 20.0 and z == 1.0:     # the file that sorts first in volume 1 (slice normal is -z)
                ds.ImageOrientationPatient = [1., 0., 2.0 ** -17, 0., 1., 0.]
            st.add_dcm(ds)
    w = st.to_nifti_wrapper('')
    shape = w.nii_img.shape
    vals = [w.get_meta('InstanceNumber', (0, 0, s, 1)) for s in range(shape[2])]
    if any(v is None for v in vals):
        return 'orientation jitter 2**-17 in one file (accepted by add_dcm): per-slice InstanceNumber of volume 1 looked up as %r' % (vals,)


def N11():
    es = []
    for v in (1, 2, 3):
        e = DcmMetaExtension.make_empty((2, 2, 1), np.eye(4), None, None)
        e.get_class_dict(('global', 'const'))['k'] = v
        es.append(e)
    try:
        DcmMetaExtension.from_sequence(es, 2, slice_dim=2)
    except TypeError:
        return 'from_sequence(..., dim=2, slice_dim=2) of extensions whose own slice_dim is None -> TypeError'


def N13():
    A = np.array([[0, 3, 0, 1], [2, 0, 0, -5], [0, 0, 3.5, 9], [0, 0, 0, 1.]])
    data = np.arange(2 * 4 * 5).reshape(2, 4, 5).astype(np.int16)
    img = nb.Nifti1Image(data, A); img.header.set_dim_info(slice=0)
    w = NiftiWrapper(img, make_empty=True)
    w.meta_ext.get_class_dict(('global', 'slices'))['SlicePos'] = ['first', 'second']
    A2 = A.copy(); A2[:3, 0] = -A[:3, 0]; A2[:3, 3] = A[:3, 3] + A[:3, 0]
    img2 = nb.Nifti1Image(data[::-1].copy(), A2, img.header); img2.header.set_dim_info(slice=0)
    w2 = NiftiWrapper(img2, make_empty=True); w2.meta_ext = w.meta_ext
    got = w2.get_meta('SlicePos', (0, 0, 0), default='DEFAULT')
    if got != 'DEFAULT':
        return 'slice axis flipped (off-diagonal affine): lookup at new slice 0 (= old slice 1) returns %r instead of the default' % (got,)


def N14():
    e = DcmMetaExtension.make_empty((2, 2, 1, 2), np.eye(4), None, 2)
    e.get_class_dict(('time', 'slices'))['k'] = [1, 2, 3]
    try:
        e.check_valid()
    except dcmmeta.InvalidExtensionError:
        return None
    return "check_valid accepts 3 values under ('time','slices') for shape (2,2,1,2) (multiplicity 1 classes are not inspected)"


def deepcopy_ext(e):
    from copy import deepcopy
    return deepcopy(e)


OPEN = ['N1', 'N2', 'N3', 'N4', 'N6', 'N8', 'N9', 'N11', 'N13', 'N14']
ALL = ['F30', 'F29', 'F28', 'F27', 'F26', 'F25', 'F24', 'F23', 'F22', 'F21', 'F20', 'F19', 'F18', 'F17', 'F16', 'F15', 'F1', 'F2', 'F3', 'F4', 'F5', 'F6', 'F7', 'F8', 'F9', 'F10', 'F11', 'F12', 'F13', 'F14']

if __name__ == '__main__':
    which = sys.argv[1:] or ALL
    present = 0
    for name in which:
        try:
            msg = globals()[name]()
        except Exception as e:  # a reproducer crashing is itself a report
            msg = 'reproducer raised %s: %s' % (type(e).__name__, e)
        print('%-4s %s' % (name, 'PRESENT: ' + msg if msg else 'absent'))
        present += bool(msg)
    sys.exit(1 if present else 0)
